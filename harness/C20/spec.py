from vfeng import Unit, Harness
PROPERTY = 'C20'
def units(tier): return [Unit('json', 'wrap.cc', 'harness.c', externs=['vf_tok', 'vf_str', 'vf_emit', 'vf_emit_double', 'vf_emit_int'])]
def harnesses(tier):
    N = 2 if tier == 'quick' else 4
    A = ['writer program: root array or dictionary, <= %d element operations each one of {number, string, nested array of two numbers, nested dictionary, nested empty node}; keys and string values: any bytes, <= 3 long; numbers: any double incl. inf/NaN' % N,
         'formatter (template parameter): "{}" substitution writing strings verbatim and numbers as a fixed finite token or inf/-inf/nan, as {fmt} renders them',
         'validity oracle: an RFC 8259 recogniser in the harness']
    hs = []
    shapes = []
    for root in (0, 1):
        shapes.append((root, 0, (0, 0, 0, 0)))
        for a in range(5):
            if root == 1 and a == 4: pass
            shapes.append((root, 1, (a, 0, 0, 0)))
            for b in (range(5) if tier != 'quick' else (0, 1, 3)):
                shapes.append((root, 2, (a, b, 0, 0)))
    if tier != 'quick':
        shapes += [(r, 3, (a, b, c, 0)) for r in (0, 1) for a in (0, 1, 2) for b in (1, 3) for c in (0, 1, 4)]
    for (root, nops, ops) in shapes:
        for slen in ((1,) if tier == 'quick' else (0, 1, 2)):
            D = ['SHAPE', 'ROOT=%d' % root, 'NOPS=%d' % nops, 'SLEN=%d' % slen] + ['OP%d=%d' % (i, o) for i, o in enumerate(ops)]
            h = Harness('h_json', 'json', unwind=76, timeout=300 if tier == 'quick' else 1800, mem_gb=16,
                        bounds='root %s, ops %s, all key/value strings of length %d with symbolic bytes, numbers any double' % ('dict' if root else 'array', list(ops[:nops]), slen),
                        claims='every text produced through MiniJSONWriter (operator++, [], <<, =, Close, destructor) is a valid JSON value', assumptions=A, known=['json_escaping', 'json_nonfinite'],
                        defines=D, tv_cases=0, flags=['--object-bits', '10'])
            h.label = 'h_json[%s,%s,len%d]' % ('dict' if root else 'array', ''.join(map(str, ops[:nops])), slen); hs.append(h)
    hs[0].tv_cases = 3000
    return hs
