// C20 harness TU: the real mp::MiniJSONWriter<Formatter> instantiated on a harness formatter that appends
// to a byte buffer owned by the C harness.
#include <string>
#include <cstring>
#include <type_traits>
#include "mp/format.h"
#include "mp/util-json-write.hpp"
extern "C" { void vf_tok(int begin); void vf_str(int begin); void vf_emit(char c); void vf_emit_double(double v); void vf_emit_int(long long v); }
struct HFmt {
  static void put(const char* s) { for (; *s; ++s) vf_emit(*s); }
  // a C string substituted outside quotes is a scalar token (number / null literal)
  static void tok(const char* s) { vf_tok(1); put(s); vf_tok(0); }
  template <class A> static void tok(const A& a) { put(a); }
  static void put(const std::string& s) { for (char c : s) vf_emit(c); }
  static void put(fmt::StringRef s) { for (std::size_t i = 0; i < s.size(); ++i) vf_emit(s.data()[i]); }
  static void put(char c) { vf_emit(c); }
  static void put(double v) { vf_emit_double(v); }
  static void put(int v) { vf_emit_int(v); }
  static void put(long long v) { vf_emit_int(v); }
  // "{}" substitution for zero or one argument (all the writer uses)
  void write(const char* f) { put(f); }
  template <class A> void write(const char* f, const A& a) {
    for (const char* g = f; *g; ++g) {
      if (g[0] == '{' && g[1] == '}') {
        bool quoted = g != f && g[-1] == '"' && g[2] == '"';      // "{}" inside double quotes: a JSON string payload
        if (quoted) { vf_str(1); put(a); vf_str(0); } else tok(a);
        ++g;
      } else vf_emit(*g);
    }
  }
};
typedef mp::MiniJSONWriter<HFmt> JW;
struct Prog {            // must mirror `struct prog` in harness.c
  int slen;              // length of every key / string value (bytes may be anything)
  int root_dict;         // root is a dictionary (1) or an array (0)
  int nops;              // number of element operations (<= 4)
  int op[4];             // 0 number, 1 string, 2 nested array of 2 numbers, 3 nested dict {k: string}, 4 nested empty (Unset -> "[]")
  double num[4];
  char str[4][4];        // value strings (NUL terminated, <= 3 bytes)
  char key[4][4];        // keys
};
#define W extern "C" __attribute__((noinline))
W int w_run(const Prog* p) {
  try {
    HFmt f; {
      JW w(f);
      for (int i = 0; i < p->nops; ++i) {
        if (p->root_dict) {
          auto node = w[std::string_view(p->key[i], p->slen)];
          switch (p->op[i]) {
            case 0: node = p->num[i]; break;
            case 1: node = std::string(p->str[i], p->slen); break;
            case 2: node << p->num[i] << 1; break;
            case 3: node["k"] = std::string(p->str[i], p->slen); break;
            default: break;
          }
        } else {
          switch (p->op[i]) {
            case 0: w << p->num[i]; break;
            case 1: w << std::string(p->str[i], p->slen); break;
            case 2: { auto node = ++w; node << p->num[i] << 1; } break;
            case 3: { auto node = ++w; node["k"] = std::string(p->str[i], p->slen); } break;
            default: { auto node = ++w; } break;
          }
        }
      }
    }
    return 0;
  } catch (...) { return 1; }
}
