/* C20 (partial): every line the graph exporter's JSON writer produces is valid JSON (RFC 8259). */
#include "vf_harness.h"
struct prog { s32 slen, root_dict, nops; s32 op[4]; double num[4]; char str[4][4]; char key[4][4]; };
#ifndef NOPS
#define NOPS 2
#endif
#define OUTMAX 72
/* out = skeleton of the emitted text: structural bytes as emitted, every non-empty string payload replaced by a single 'x' and every
 * number token by '1'.  Payload bytes and number tokens are checked where they are emitted; the whole text is valid
 * JSON iff the skeleton is valid JSON and every payload / number token is valid. */
static u8 out[OUTMAX]; static u32 nout; static int overflow, in_str, esc, bad_payload, bad_number, str_bytes;
static void raw(u8 c);
/* scalar token written as text outside quotes (e.g. the replacement for a non-finite number): one '1' in the skeleton,
 * the token itself must be `null`, `true`, `false` or a JSON number */
static u8 tokb[10]; static u32 ntok; static int in_tok;
static int tok_is(const char *w) { u32 i = 0; for (; w[i]; i++) if (i >= ntok || tokb[i] != (u8)w[i]) return 0; return i == ntok; }
static int tok_number(void) { u32 q = 0; if (q < ntok && tokb[q] == '-') q++; if (!(q < ntok && tokb[q] >= '0' && tokb[q] <= '9')) return 0;
  if (tokb[q] == '0') q++; else while (q < ntok && tokb[q] >= '0' && tokb[q] <= '9') q++;
  if (q < ntok && tokb[q] == '.') { q++; if (!(q < ntok && tokb[q] >= '0' && tokb[q] <= '9')) return 0; while (q < ntok && tokb[q] >= '0' && tokb[q] <= '9') q++; }
  if (q < ntok && (tokb[q] == 'e' || tokb[q] == 'E')) { q++; if (q < ntok && (tokb[q] == '+' || tokb[q] == '-')) q++; if (!(q < ntok && tokb[q] >= '0' && tokb[q] <= '9')) return 0; while (q < ntok && tokb[q] >= '0' && tokb[q] <= '9') q++; }
  return q == ntok; }
void vf_tok(u32 begin) { if (begin) { in_tok = 1; ntok = 0; raw('1'); } else { in_tok = 0; if (!(tok_is("null") || tok_is("true") || tok_is("false") || tok_number())) bad_number = 1; } }
void vf_str(u32 begin) { if (begin) { in_str = 1; esc = 0; raw('x'); /* one skeleton byte per string payload (empty or not): the skeleton length stays concrete */ } else { if (esc) bad_payload = 1; in_str = 0; } }
static void raw(u8 c) { if (nout < OUTMAX) out[nout++] = c; else overflow = 1; }
void vf_emit(u8 c) {
  if (in_tok) { if (ntok < 10) tokb[ntok++] = c; else bad_number = 1; return; }
  if (!in_str) { raw(c); return; }
  if (esc > 1) { if (!((c >= '0' && c <= '9') || (c >= 'a' && c <= 'f') || (c >= 'A' && c <= 'F'))) bad_payload = 1; esc = esc == 5 ? 0 : esc + 1; }   /* the four hex digits of \\uXXXX */
  else if (esc) { if (c == 'u') esc = 2; else { if (!(c == '"' || c == '\\' || c == '/' || c == 'b' || c == 'f' || c == 'n' || c == 'r' || c == 't')) bad_payload = 1; esc = 0; } }
  else if (c == '\\') esc = 1;
  else if (c < 0x20 || c == '"') bad_payload = 1;

}
static void lit(const char *s) { for (; *s; s++) raw((u8)*s); }
/* number tokens as {fmt} renders them: finite -> a JSON number ("1"); non-finite -> "inf" / "-inf" / "nan" */
void vf_emit_double(vf_f64 v) {
  if (in_str) return;
  if (v != v || v - v != 0) bad_number = 1;     /* {fmt} renders these as nan / inf / -inf: not JSON numbers */
  raw('1');
}
void vf_emit_int(u64 v) { if (!in_str) raw('7'); }
/* ---- RFC 8259 recogniser: one pass over out[0..nout), explicit container stack (nesting <= 3) ---- */
enum { S_VALUE, S_STR, S_ESC, S_U1, S_U2, S_U3, S_U4, S_MINUS, S_ZERO, S_INT, S_FRAC0, S_FRAC, S_EXP0, S_EXP1, S_EXP, S_AFTER, S_KEY_OR_END, S_KEY, S_COLON, S_VAL_OR_END, S_WORD, S_BAD };
static int json_valid(void) {
  int st = S_VALUE, sp = 0, is_key = 0, wpos = 0; u8 stack[4]; const char *word = 0; int done = 0;
  for (u32 i = 0; i <= OUTMAX; i++) {
    int eof = i >= nout; u8 c = eof ? 0 : out[i];
    int isws = c == ' ' || c == '\t' || c == '\n' || c == '\r', dig = c >= '0' && c <= '9';
    int again = 1;
    for (int rep = 0; rep < 2 && again; rep++) { again = 0;
      switch (st) {
      case S_VALUE: case S_VAL_OR_END:
        if (eof) return 0;
        if (isws) break;
        if (st == S_VAL_OR_END && c == ']') { sp--; st = S_AFTER; break; }
        if (c == '"') { st = S_STR; is_key = 0; } else if (c == '[') { if (sp >= 3) return 0; stack[sp++] = '['; st = S_VAL_OR_END; }
        else if (c == '{') { if (sp >= 3) return 0; stack[sp++] = '{'; st = S_KEY_OR_END; }
        else if (c == '-') st = S_MINUS; else if (c == '0') st = S_ZERO; else if (dig) st = S_INT;
        else if (c == 't') { word = "true"; wpos = 1; st = S_WORD; } else if (c == 'f') { word = "false"; wpos = 1; st = S_WORD; } else if (c == 'n') { word = "null"; wpos = 1; st = S_WORD; }
        else return 0;
        break;
      case S_WORD: if (eof || c != (u8)word[wpos]) return 0; wpos++; if (!word[wpos]) st = S_AFTER; break;
      case S_STR: if (eof || c < 0x20) return 0; if (c == '"') st = is_key ? S_COLON : S_AFTER; else if (c == '\\') st = S_ESC; break;
      case S_ESC: if (eof) return 0; if (c == 'u') st = S_U1; else if (c == '"' || c == '\\' || c == '/' || c == 'b' || c == 'f' || c == 'n' || c == 'r' || c == 't') st = S_STR; else return 0; break;
      case S_U1: case S_U2: case S_U3: case S_U4: if (eof || !(dig || (c >= 'a' && c <= 'f') || (c >= 'A' && c <= 'F'))) return 0; st = st == S_U4 ? S_STR : st + 1; break;
      case S_MINUS: if (c == '0') st = S_ZERO; else if (dig) st = S_INT; else return 0; break;
      case S_ZERO: if (c == '.') st = S_FRAC0; else if (c == 'e' || c == 'E') st = S_EXP0; else { st = S_AFTER; again = 1; } break;
      case S_INT: if (dig) break; if (c == '.') st = S_FRAC0; else if (c == 'e' || c == 'E') st = S_EXP0; else { st = S_AFTER; again = 1; } break;
      case S_FRAC0: if (!dig) return 0; st = S_FRAC; break;
      case S_FRAC: if (dig) break; if (c == 'e' || c == 'E') st = S_EXP0; else { st = S_AFTER; again = 1; } break;
      case S_EXP0: if (c == '+' || c == '-') st = S_EXP1; else if (dig) st = S_EXP; else return 0; break;
      case S_EXP1: if (!dig) return 0; st = S_EXP; break;
      case S_EXP: if (dig) break; st = S_AFTER; again = 1; break;
      case S_AFTER:
        if (eof) { done = 1; return sp == 0; }
        if (isws) break;
        if (sp == 0) return 0;
        if (c == ',') st = stack[sp - 1] == '[' ? S_VALUE : S_KEY;
        else if (c == ']' && stack[sp - 1] == '[') sp--; else if (c == '}' && stack[sp - 1] == '{') sp--; else return 0;
        break;
      case S_KEY_OR_END: case S_KEY:
        if (eof) return 0; if (isws) break;
        if (st == S_KEY_OR_END && c == '}') { sp--; st = S_AFTER; break; }
        if (c != '"') return 0; st = S_STR; is_key = 1; break;
      case S_COLON: if (eof) return 0; if (isws) break; if (c != ':') return 0; st = S_VALUE; break;
      default: return 0;
      }
    }
    if (eof) break;
  }
  return done;
}
static struct prog P;
void h_json(void) {
  nout = 0; overflow = 0; in_str = esc = bad_payload = bad_number = in_tok = 0; ntok = 0;
#ifdef SHAPE     /* enumerated shape: root kind, number of operations, the operations and the string lengths are fixed per instance */
  static const int ops[4] = {OP0, OP1, OP2, OP3};
  P.root_dict = ROOT; P.nops = NOPS; P.slen = SLEN;
#else
  P.slen = (s32)(vf_nd64() % 4);
  P.root_dict = vf_ndbool(); P.nops = (s32)(vf_nd64() % (NOPS + 1));
#endif
  for (int i = 0; i < 4; i++) {
#ifdef SHAPE
    P.op[i] = ops[i];
#else
    P.op[i] = (s32)(vf_nd64() % 5);
#endif
    P.num[i] = vf_nddouble();
    for (int k = 0; k < 4; k++) { P.str[i][k] = (char)vf_nd8(); P.key[i][k] = (char)vf_nd8(); }
    P.str[i][3] = 0; P.key[i][3] = 0;

#ifdef KF_json_escaping
    for (int k = 0; k < 3; k++) { u8 a = (u8)P.str[i][k], b = (u8)P.key[i][k]; VF_REQUIRE(!(a && (a < 0x20 || a == '"' || a == '\\')) && !(b && (b < 0x20 || b == '"' || b == '\\'))); }
#endif
#ifdef KF_json_nonfinite
    VF_REQUIRE(P.num[i] - P.num[i] == 0);
#endif
  }
  u32 rc = w_run((char *)&P); VF_OBS(rc); VF_OBS(nout);
  VF_ASSERT(rc == 0, "the JSON writer does not throw");
  VF_REQUIRE(!overflow);
  for (u32 i = 0; i < OUTMAX; i++) { if (i >= nout) break; VF_OBS(out[i]); }
  int ok = json_valid();
  VF_ASSERT(ok, "the emitted text is structurally valid JSON (balanced brackets, separators, quoted keys)");
  VF_ASSERT(!bad_payload, "every string (key or value) is written with the characters that need it escaped");
  VF_ASSERT(!bad_number, "every number is written as a valid JSON number (no bare inf/nan)");
  VF_WITNESS();
}
