from vfeng import Unit, Harness
PROPERTY = 'C17'
TYPES = [('i8', 8), ('i16', 16), ('i32', 32), ('i64', 64), ('ill', 64), ('u32', 32), ('usz', 64)]
SRC = ['i8', 'i16', 'i32', 'i64', 'ill', 'u32', 'usz', 'u8t', 'u16t']
def units(tier): return [Unit('safeint', 'wrap.cc', 'harness.c')]
def harnesses(tier):
    hs = []
    A = ['operands are the full bit patterns of the C++ type (no range restriction)']
    for t, n in TYPES:
        for op in ('add', 'sub', 'abs'):
            hs.append(Harness('h_%s_%s' % (op, t), 'safeint', unwind=2, bounds='full %d-bit operands, no bound' % n,
                              claims='SafeInt<%s> %s: returns iff exact result representable, value exact, only OverflowError, no UB flag violated' % (t, op),
                              assumptions=A, known=['unsigned_sub'] if op == 'sub' else []))
    for t, n in TYPES[:2]:
        hs.append(Harness('h_mul_%s' % t, 'safeint', unwind=2, backend='kissat', timeout=300, bounds='full %d-bit operands' % n,
                          claims='SafeInt<%s> *: returns iff exact product representable, value exact' % t, assumptions=A, known=['mul_min_product']))
    # wide multiplication: one operand symbolic (full width), the other an enumerated constant (one harness instance per constant and
    # operand order); symbolic x symbolic at 32/64 bit finishes on no back end (DESIGN.md 9.7)
    # measured: negative constants (signed types) and 3037000500 (64 bit) end in the 300 s cap on SAT and on cvc5 --solve-bv-as-int=sum:
    # they are attempted in the thorough tier only (NOT-DECIDED there, never pass).  Unsigned types take non-negative constants < 2^63 only
    # (the 128-bit reference product of the harness must not overflow).
    C32 = ['0', '1', '2', '3', '46341', '65536', '2147483647', '(-2147483647-1)']
    C64 = ['0', '1', '2', '4294967296LL', '9223372036854775807LL', '(-9223372036854775807LL-1)']
    X32 = ['7', '10', '46340', '65535', '1073741824', '715827883']
    X64 = ['3', '10', '2147483648LL', '4611686018427387904LL', '3074457345618258603LL', '3037000500LL']
    NEG32 = ['(-1)', '(-2)', '(-3)', '(-46341)', '(-65536)', '(-1073741824)']
    NEG64 = ['(-1)', '(-3)', '(-4294967296LL)', '(-3037000500LL)', '(-4611686018427387904LL)']
    for t, n in [('i32', 32), ('u32', 32), ('i64', 64), ('usz', 64)]:
        cs = (C32 if n == 32 else C64) + ([] if tier == 'quick' else (X32 if n == 32 else X64) + ((NEG32 if n == 32 else NEG64) if t[0] == 'i' else []))
        for c in cs:
            for sw in (0, 1):
                h = Harness('h_mulc_%s' % t, 'safeint', unwind=2, timeout=300, defines=['MULC=' + c, 'MULC_SWAP=%d' % sw], tv_cases=0,
                            bounds='one operand any %d-bit value, the other the constant %s (%s operand)' % (n, c, 'left' if sw else 'right'),
                            claims='SafeInt<%s> * with constant %s: returns iff exact product representable, value exact, only OverflowError' % (t, c),
                            assumptions=A + ['the constant operand is enumerated, not symbolic'], known=['mul_min_product'])
                h.label = 'h_mulc_%s[%s,%s]' % (t, c.strip('()').replace('LL', ''), 'c*x' if sw else 'x*c'); hs.append(h)
    pairs = [(t, u) for t, _ in TYPES for u in SRC]
    if tier == 'quick': pairs = [p for i, p in enumerate(pairs) if i % 3 == 0 or p[0] in ('i32', 'usz')]
    for t, u in pairs:
        hs.append(Harness('h_ctor_%s_from_%s' % (t, u), 'safeint', unwind=2, bounds='full-width source value',
                          claims='SafeInt<%s>(%s): succeeds iff value representable, value preserved' % (t, u), assumptions=A, tv_cases=100))
    for a, b in [('i32', 'usz'), ('i16', 'i32'), ('i32', 'i64'), ('usz', 'i32'), ('i8', 'i16')]:
        hs.append(Harness('h_addm_%s_%s' % (a, b), 'safeint', unwind=2, bounds='full width', claims='SafeInt<%s> + %s' % (a, b), assumptions=A))
        hs.append(Harness('h_subm_%s_%s' % (a, b), 'safeint', unwind=2, bounds='full width', claims='%s - SafeInt<%s>' % (a, b), assumptions=A,
                          known=['unsigned_sub'] if b in ('usz', 'u32') else []))
    return hs
