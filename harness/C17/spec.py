from vfeng import Unit, Harness
PROPERTY = 'C17'
TYPES = [('i8', 8), ('i16', 16), ('i32', 32), ('i64', 64), ('ill', 64), ('u32', 32), ('usz', 64)]
SRC = ['i8', 'i16', 'i32', 'i64', 'ill', 'u32', 'usz', 'u8t', 'u16t']
def units(tier): return [Unit('safeint', 'wrap.cc', 'harness.c')]
def harnesses(tier):
    hs = []
    A = ['operands are the full bit patterns of the C++ type (no range restriction)']
    for t, n in TYPES:
        for op in ('add', 'sub', 'abs'):
            hs.append(Harness('h_%s_%s' % (op, t), 'safeint', unwind=2, bounds='full %d-bit operands, no bound' % n,
                              claims='SafeInt<%s> %s: returns iff exact result representable, value exact, only OverflowError, no UB flag violated' % (t, op),
                              assumptions=A, known=['unsigned_sub'] if op == 'sub' else []))
    for t, n in TYPES[:2]:
        hs.append(Harness('h_mul_%s' % t, 'safeint', unwind=2, backend='kissat', timeout=300, bounds='full %d-bit operands' % n,
                          claims='SafeInt<%s> *: returns iff exact product representable, value exact' % t, assumptions=A, known=['mul_min_product']))
    pairs = [(t, u) for t, _ in TYPES for u in SRC]
    if tier == 'quick': pairs = [p for i, p in enumerate(pairs) if i % 3 == 0 or p[0] in ('i32', 'usz')]
    for t, u in pairs:
        hs.append(Harness('h_ctor_%s_from_%s' % (t, u), 'safeint', unwind=2, bounds='full-width source value',
                          claims='SafeInt<%s>(%s): succeeds iff value representable, value preserved' % (t, u), assumptions=A, tv_cases=100))
    for a, b in [('i32', 'usz'), ('i16', 'i32'), ('i32', 'i64'), ('usz', 'i32'), ('i8', 'i16')]:
        hs.append(Harness('h_addm_%s_%s' % (a, b), 'safeint', unwind=2, bounds='full width', claims='SafeInt<%s> + %s' % (a, b), assumptions=A))
        hs.append(Harness('h_subm_%s_%s' % (a, b), 'safeint', unwind=2, bounds='full width', claims='%s - SafeInt<%s>' % (a, b), assumptions=A,
                          known=['unsigned_sub'] if b in ('usz', 'u32') else []))
    return hs
