// C17 harness TU: extern "C" wrappers instantiating the real mp::SafeInt templates.
#include "mp/safeint.h"
using mp::SafeInt;
typedef signed char i8; typedef short i16; typedef int i32; typedef long i64; typedef long long ill;
typedef unsigned u32; typedef unsigned long usz; typedef unsigned char u8t; typedef unsigned short u16t;
#define W extern "C" __attribute__((noinline)) int
#define TRY(stmt) try { stmt; return 0; } catch (const mp::OverflowError&) { return 1; } catch (...) { return 2; }
// binary operators on SafeInt<T>, SafeInt<T>
#define BIN(T) \
W w_add_##T(long long a, long long b, long long* out) { TRY(*out = (long long)val(SafeInt<T>((T)a) + SafeInt<T>((T)b))) } \
W w_sub_##T(long long a, long long b, long long* out) { TRY(*out = (long long)val(SafeInt<T>((T)a) - SafeInt<T>((T)b))) } \
W w_mul_##T(long long a, long long b, long long* out) { TRY(*out = (long long)val(SafeInt<T>((T)a) * SafeInt<T>((T)b))) } \
W w_abs_##T(long long a, unsigned long long* out) { *out = (unsigned long long)mp::SafeAbs<T>((T)a); return 0; }
BIN(i8) BIN(i16) BIN(i32) BIN(i64) BIN(ill) BIN(u32) BIN(usz)
// narrowing/converting constructor SafeInt<T>(U)
#define CT(T, U) W w_ctor_##T##_from_##U(long long a, long long* out) { TRY(*out = (long long)val(SafeInt<T>((U)a))) }
#define CTALL(T) CT(T, i8) CT(T, i16) CT(T, i32) CT(T, i64) CT(T, ill) CT(T, u32) CT(T, usz) CT(T, u8t) CT(T, u16t)
CTALL(i8) CTALL(i16) CTALL(i32) CTALL(i64) CTALL(ill) CTALL(u32) CTALL(usz)
// mixed forms SafeInt<T1> op T2 and T1 op SafeInt<T2> (go through the constructor)
#define MIX(T1, T2) \
W w_addm_##T1##_##T2(long long a, long long b, long long* out) { TRY(*out = (long long)val(SafeInt<T1>((T1)a) + (T2)b)) } \
W w_subm_##T1##_##T2(long long a, long long b, long long* out) { TRY(*out = (long long)val((T1)a - SafeInt<T2>((T2)b))) } \
W w_mulm_##T1##_##T2(long long a, long long b, long long* out) { TRY(*out = (long long)val(SafeInt<T1>((T1)a) * (T2)b)) }
MIX(i32, usz) MIX(i16, i32) MIX(i32, i64) MIX(usz, i32) MIX(i8, i16)
