/* C17: checked integer arithmetic is exact or raises OverflowError; never wraps, never UB. */
#include "vf_harness.h"
#define SMIN(n) (-((s128)1 << ((n)-1)))
#define SMAX(n) (((s128)1 << ((n)-1)) - 1)
#define UMAX(n) (((s128)1 << (n)) - 1)
/* value of the low n bits of x as the C++ type (signed or unsigned) */
static s128 as_t(u64 x, int n, int sg) {
  u64 m = n == 64 ? ~(u64)0 : (((u64)1 << n) - 1); u64 v = x & m;
  if (sg && n < 64 && (v >> (n - 1))) return (s128)v - ((s128)1 << n);
  if (sg && n == 64) return (s128)(s64)v;
  return (s128)v;
}
static int rep(s128 e, int n, int sg) { return sg ? (e >= SMIN(n) && e <= SMAX(n)) : (e >= 0 && e <= UMAX(n)); }
#ifdef KF_mul_min_product
#define KF_MUL(e, n, sg) VF_REQUIRE(!((sg) && (e) == SMIN(n)))
#else
#define KF_MUL(e, n, sg)
#endif
#ifdef KF_unsigned_sub
#define KF_USUB(sg) VF_REQUIRE(sg)
#else
#define KF_USUB(sg)
#endif
#define BINH(T, n, sg) \
void h_add_##T(void) { u64 a = vf_nd64(), b = vf_nd64(); u64 out = 0; s128 x = as_t(a, n, sg), y = as_t(b, n, sg), e = x + y; \
  u32 rc = w_add_##T(a, b, (char*)&out); VF_OBS(rc); VF_OBS(out); \
  VF_ASSERT(rc == 0 || rc == 1, "only OverflowError may be thrown"); \
  VF_ASSERT((rc == 0) == rep(e, n, sg), "add: returns iff exact result representable"); \
  if (rc == 0) VF_ASSERT(as_t(out, n, sg) == e, "add: value exact"); VF_WITNESS(); } \
void h_sub_##T(void) { u64 a = vf_nd64(), b = vf_nd64(); u64 out = 0; s128 x = as_t(a, n, sg), y = as_t(b, n, sg), e = x - y; \
  KF_USUB(sg); \
  u32 rc = w_sub_##T(a, b, (char*)&out); VF_OBS(rc); VF_OBS(out); \
  VF_ASSERT(rc == 0 || rc == 1, "only OverflowError may be thrown"); \
  VF_ASSERT((rc == 0) == rep(e, n, sg), "sub: returns iff exact result representable"); \
  if (rc == 0) VF_ASSERT(as_t(out, n, sg) == e, "sub: value exact"); VF_WITNESS(); } \
void h_abs_##T(void) { u64 a = vf_nd64(); u64 out = 0; s128 x = as_t(a, n, sg); \
  w_abs_##T(a, (char*)&out); VF_OBS(out); \
  VF_ASSERT(as_t(out, n, 0) == (x < 0 ? -x : x), "SafeAbs exact in unsigned type"); VF_WITNESS(); }
#define MULH(T, n, sg) \
void h_mul_##T(void) { u64 a = vf_nd64(), b = vf_nd64(); u64 out = 0; s128 x = as_t(a, n, sg), y = as_t(b, n, sg), e = x * y; \
  KF_MUL(e, n, sg); \
  u32 rc = w_mul_##T(a, b, (char*)&out); VF_OBS(rc); VF_OBS(out); \
  VF_ASSERT(rc == 0 || rc == 1, "only OverflowError may be thrown"); \
  VF_ASSERT((rc == 0) == rep(e, n, sg), "mul: returns iff exact result representable"); \
  if (rc == 0) VF_ASSERT(as_t(out, n, sg) == e, "mul: value exact"); VF_WITNESS(); }
BINH(i8, 8, 1) BINH(i16, 16, 1) BINH(i32, 32, 1) BINH(i64, 64, 1) BINH(ill, 64, 1) BINH(u32, 32, 0) BINH(usz, 64, 0)
MULH(i8, 8, 1) MULH(i16, 16, 1)
/* native-only (translator validation) for the wide multiplications decided by Engine I */
MULH(i32, 32, 1) MULH(i64, 64, 1) MULH(u32, 32, 0) MULH(usz, 64, 0)
/* wide multiplication with one operand an enumerated constant (-DMULC=..., one harness instance per constant), the other symbolic */
/* defaults keep h_mulc_* in the native harness table (built without instance defines); every registered instance passes both */
#ifndef MULC
#define MULC 3
#define MULC_SWAP 0
#endif
#if 1
#define MULCH(T, n, sg) \
void h_mulc_##T(void) { u64 a = vf_nd64(), b = (u64)(long long)(MULC); u64 out = 0; s128 x = as_t(a, n, sg), y = as_t(b, n, sg), e = x * y; \
  KF_MUL(e, n, sg); \
  u32 rc = MULC_SWAP ? w_mul_##T(b, a, (char*)&out) : w_mul_##T(a, b, (char*)&out); VF_OBS(rc); VF_OBS(out); \
  VF_ASSERT(rc == 0 || rc == 1, "only OverflowError may be thrown"); \
  VF_ASSERT((rc == 0) == rep(e, n, sg), "mul: returns iff exact result representable"); \
  if (rc == 0) VF_ASSERT(as_t(out, n, sg) == e, "mul: value exact"); VF_WITNESS(); }
MULCH(i32, 32, 1) MULCH(i64, 64, 1) MULCH(u32, 32, 0) MULCH(usz, 64, 0)
#endif
#define CTH(T, n, sg, U, m, ug) \
void h_ctor_##T##_from_##U(void) { u64 a = vf_nd64(); u64 out = 0; s128 x = as_t(a, m, ug); \
  u32 rc = w_ctor_##T##_from_##U(a, (char*)&out); VF_OBS(rc); VF_OBS(out); \
  VF_ASSERT(rc == 0 || rc == 1, "only OverflowError may be thrown"); \
  VF_ASSERT((rc == 0) == rep(x, n, sg), "ctor: succeeds iff value representable in target"); \
  if (rc == 0) VF_ASSERT(as_t(out, n, sg) == x, "ctor: value preserved"); VF_WITNESS(); }
#define CTHALL(T, n, sg) CTH(T, n, sg, i8, 8, 1) CTH(T, n, sg, i16, 16, 1) CTH(T, n, sg, i32, 32, 1) CTH(T, n, sg, i64, 64, 1) \
  CTH(T, n, sg, ill, 64, 1) CTH(T, n, sg, u32, 32, 0) CTH(T, n, sg, usz, 64, 0) CTH(T, n, sg, u8t, 8, 0) CTH(T, n, sg, u16t, 16, 0)
CTHALL(i8, 8, 1) CTHALL(i16, 16, 1) CTHALL(i32, 32, 1) CTHALL(i64, 64, 1) CTHALL(ill, 64, 1) CTHALL(u32, 32, 0) CTHALL(usz, 64, 0)
#define MIXH(T1, n1, s1, T2, n2, s2) \
void h_addm_##T1##_##T2(void) { u64 a = vf_nd64(), b = vf_nd64(); u64 out = 0; s128 x = as_t(a, n1, s1), y = as_t(b, n2, s2), e = x + y; \
  u32 rc = w_addm_##T1##_##T2(a, b, (char*)&out); VF_OBS(rc); VF_OBS(out); \
  VF_ASSERT(rc == 0 || rc == 1, "only OverflowError may be thrown"); \
  VF_ASSERT((rc == 0) == (rep(y, n1, s1) && rep(e, n1, s1)), "SafeInt<T1>+T2: returns iff operand and result representable in T1"); \
  if (rc == 0) VF_ASSERT(as_t(out, n1, s1) == e, "value exact"); VF_WITNESS(); } \
void h_subm_##T1##_##T2(void) { u64 a = vf_nd64(), b = vf_nd64(); u64 out = 0; s128 x = as_t(a, n1, s1), y = as_t(b, n2, s2), e = x - y; \
  if (!(s2)) { KF_USUB(0); } \
  u32 rc = w_subm_##T1##_##T2(a, b, (char*)&out); VF_OBS(rc); VF_OBS(out); \
  VF_ASSERT(rc == 0 || rc == 1, "only OverflowError may be thrown"); \
  VF_ASSERT((rc == 0) == (rep(x, n2, s2) && rep(e, n2, s2)), "T1-SafeInt<T2>: returns iff operand and result representable in T2"); \
  if (rc == 0) VF_ASSERT(as_t(out, n2, s2) == e, "value exact"); VF_WITNESS(); }
MIXH(i32, 32, 1, usz, 64, 0) MIXH(i16, 16, 1, i32, 32, 1) MIXH(i32, 32, 1, i64, 64, 1) MIXH(usz, 64, 0, i32, 32, 1) MIXH(i8, 8, 1, i16, 16, 1)
