// C18 harness TU: the real mp::Equal / std::hash<mp::Expr> (src/expr.cc) on trees built by the real ExprFactory
// from a recipe (arrays of ints/doubles supplied by the harness).
#include "expr.cc"
using namespace mp;
namespace ex = mp::expr;
struct Recipe {           // must mirror `struct recipe` in harness.c
  int kind;               // category 0..19 (see harness)
  int op;                 // operator choice within the category
  int n;                  // arity / number of breakpoints
  int leaf_kind[3];       // numeric leaf: 0 const,1 var,2 common ; logical leaf: 0 const,1 not(const),2 relational(var<const)
  int leaf_idx[3];        // variable / common-expression index, logical constant value
  double leaf_val[3];     // numeric constants
  double val;             // root constant
  int idx;                // root index / function id
  double slope[3], bp[2]; // PL term
  int str_arg[2];         // call: argument i is a string literal (1) or numeric leaf (0)
  char str[2][3];         // string literal bytes (NUL terminated)
};
static ExprFactory* F; static Function funcs[2]; static Expr slot[3];
static NumericExpr numleaf(const Recipe& r, int i) {
  switch (r.leaf_kind[i]) { case 0: return F->MakeNumericConstant(r.leaf_val[i]); case 1: return F->MakeVariable(r.leaf_idx[i]); default: return F->MakeCommonExpr(r.leaf_idx[i]); }
}
static LogicalExpr logleaf(const Recipe& r, int i) {
  switch (r.leaf_kind[i]) {
    case 0: return F->MakeLogicalConstant(r.leaf_idx[i] != 0);
    case 1: return F->MakeNot(F->MakeLogicalConstant(r.leaf_idx[i] != 0));
    default: return F->MakeRelational(ex::LT, F->MakeVariable(r.leaf_idx[i]), F->MakeNumericConstant(r.leaf_val[i]));
  }
}
static const ex::Kind UN[] = {ex::ABS, ex::FLOOR, ex::MINUS}, BIN[] = {ex::ADD, ex::SUB, ex::LESS}, VA[] = {ex::MIN, ex::MAX},
  BL[] = {ex::OR, ex::AND, ex::IFF}, REL[] = {ex::LT, ex::LE, ex::EQ, ex::GE, ex::GT, ex::NE}, LC[] = {ex::ATLEAST, ex::ATMOST, ex::EXACTLY},
  IL[] = {ex::EXISTS, ex::FORALL}, PW[] = {ex::ALLDIFF, ex::NOT_ALLDIFF};
static Expr build(const Recipe& r) {
  switch (r.kind) {
  case 0: return F->MakeNumericConstant(r.val);
  case 1: return F->MakeVariable(r.idx);
  case 2: return F->MakeCommonExpr(r.idx);
  case 3: return F->MakeUnary(UN[r.op], numleaf(r, 0));
  case 4: return F->MakeBinary(BIN[r.op], numleaf(r, 0), numleaf(r, 1));
  case 5: return F->MakeIf(F->MakeLogicalConstant(r.idx != 0), numleaf(r, 0), numleaf(r, 1));
  case 6: { auto b = F->BeginPLTerm(r.n); for (int i = 0; i < r.n; ++i) { b.AddSlope(r.slope[i]); b.AddBreakpoint(r.bp[i]); } b.AddSlope(r.slope[r.n]);
            return F->EndPLTerm(b, r.leaf_kind[0] == 2 ? F->MakeCommonExpr(r.leaf_idx[0]) : F->MakeVariable(r.leaf_idx[0])); }
  case 7: { auto b = F->BeginCall(funcs[r.idx & 1], r.n);
            for (int i = 0; i < r.n; ++i) { if (r.str_arg[i]) b.AddArg(F->MakeStringLiteral(fmt::StringRef(r.str[i], std::strlen(r.str[i])))); else b.AddArg(numleaf(r, i)); }
            return F->EndCall(b); }
  case 8: { auto b = F->BeginIterated(VA[r.op], r.n); for (int i = 0; i < r.n; ++i) b.AddArg(numleaf(r, i)); return F->EndIterated(b); }
  case 9: { auto b = F->BeginSum(r.n); for (int i = 0; i < r.n; ++i) b.AddArg(numleaf(r, i)); return F->EndSum(b); }
  case 10: { auto b = F->BeginNumberOf(r.n, numleaf(r, 0)); for (int i = 1; i < r.n; ++i) b.AddArg(numleaf(r, i)); return F->EndNumberOf(b); }
  case 11: { auto b = F->BeginCount(r.n); for (int i = 0; i < r.n; ++i) b.AddArg(logleaf(r, i)); return F->EndCount(b); }
  case 12: return F->MakeLogicalConstant(r.idx != 0);
  case 13: return F->MakeNot(logleaf(r, 0));
  case 14: return F->MakeBinaryLogical(BL[r.op], logleaf(r, 0), logleaf(r, 1));
  case 15: return F->MakeRelational(REL[r.op], numleaf(r, 0), numleaf(r, 1));
  case 16: { auto b = F->BeginCount(r.n - 1); for (int i = 1; i < r.n; ++i) b.AddArg(logleaf(r, i)); return F->MakeLogicalCount(LC[r.op], F->MakeNumericConstant(r.val), F->EndCount(b)); }
  case 17: return F->MakeImplication(logleaf(r, 0), logleaf(r, 1), logleaf(r, 2));
  case 18: { auto b = F->BeginIteratedLogical(IL[r.op], r.n); for (int i = 0; i < r.n; ++i) b.AddArg(logleaf(r, i)); return F->EndIteratedLogical(b); }
  default: { auto b = F->BeginPairwise(PW[r.op], r.n); for (int i = 0; i < r.n; ++i) b.AddArg(numleaf(r, i)); return F->EndPairwise(b); }
  }
}
#define W extern "C" __attribute__((noinline))
W int w_init() { try { F = new ExprFactory(); funcs[0] = F->AddFunction("f", -1, func::SYMBOLIC); funcs[1] = F->AddFunction("g", -1, func::SYMBOLIC); return 0; } catch (...) { return 1; } }
W int w_build(int which, const Recipe* r) { try { slot[which] = build(*r); return 0; } catch (...) { return 1; } }
W int w_equal(int a, int b) { try { return Equal(slot[a], slot[b]) ? 1 : 0; } catch (...) { return 2; } }
W int w_hash(int a, unsigned long* out) { try { *out = std::hash<mp::Expr>()(slot[a]); return 0; } catch (...) { return 1; } }
