from vfeng import Unit, Harness
PROPERTY = 'C18'
def units(tier):
    return [Unit('expr', 'wrap.cc', 'harness.c', extra_repo_cc=['src/expr-info.cc', 'src/format.cc'], externs=['_ZSt11_Hash_bytesPKvmm', '_ZN3fmt14BasicFormatterIcNS_12ArgFormatterIcEEE6formatENS_15BasicCStringRefIcEE'])]
def harnesses(tier):
    A = ['trees: root of one of 20 categories (constant, variable, common expr, unary, binary, if, PL term with 1..2 breakpoints, call with 0..2 numeric/string args, min/max, sum, numberof, count, logical constant, not, and/or/iff, six relations, atleast/atmost/exactly, implication, exists/forall, alldiff) over leaf sub-expressions (numeric constant / variable / common expr; logical constant / not / relational); arity <= 3; strings <= 2 bytes',
         'all numeric constants are arbitrary 64-bit patterns (incl. NaN, infinities, signed zeros); indices any non-negative int',
         'std::_Hash_bytes (libstdc++ binary) replaced by a deterministic byte mixer; expected equality for +0 vs -0 is left open']
    NAMES = ['numconst', 'variable', 'commonexpr', 'unary', 'binary', 'if', 'plterm', 'call', 'minmax', 'sum', 'numberof', 'count', 'logconst', 'not',
             'binlogical', 'relational', 'logicalcount', 'implication', 'iterlogical', 'alldiff']
    hs = []
    to = 300 if tier == 'quick' else 1800
    NOPS = [1, 1, 1, 3, 3, 1, 1, 1, 2, 1, 1, 1, 1, 1, 3, 6, 3, 1, 2, 2]
    LEAFY = [3, 4, 5, 6, 7, 8, 9, 10, 11, 13, 14, 15, 16, 17, 18, 19]
    ARITY = {6: [1, 2], 7: [0, 1, 2], 8: [1, 2, 3], 9: [0, 2, 3], 10: [1, 2, 3], 11: [0, 2, 3], 16: [1, 2, 3], 18: [0, 2, 3], 19: [0, 2, 3]}
    def inst(fn, k, oa, ob, la, lb, tv=0, extra=(), label=None, claims='', known=(), n=None):
        D = ['KIND=%d' % k, 'OPA=%d' % oa, 'OPB=%d' % ob, 'LEAFA=%d' % la, 'LEAFB=%d' % lb] + list(extra)
        if n is not None: D.append('NFIX=%d' % n)
        h = Harness(fn, 'expr', unwind=10, timeout=to, mem_gb=16, bounds='root %s op %d/%d, leaf kinds %d/%d, arity <= 3, all constants/indices symbolic' % (NAMES[k], oa, ob, la, lb),
                    assumptions=A, claims=claims, known=list(known), tv_cases=tv, defines=D, flags=['--object-bits', '10'])
        h.label = label or '%s[%s,op%d%d,leaf%d%d%s]' % (fn, NAMES[k], oa, ob, la, lb, '' if n is None else ',n%d' % n); return h
    CE = 'Equal == structural identity of the recipes; symmetric; reflexive; copy equal; Equal => same hash; no memory error'
    for k, nm in enumerate(NAMES):
        leafc = [(0, 0)] if k not in LEAFY else ([(0, 0), (1, 1), (2, 2)] if tier == 'quick' else [(a, b) for a in range(3) for b in range(3)])
        ns = ARITY.get(k, [None])
        if tier == 'quick' and k in ARITY: ns = ns[-1:]
        if tier == 'quick' and k in (6, 7): continue        # PL terms and calls: thorough tier only (> 300 s per instance)
        if tier == 'quick' and k in ARITY: leafc = [(1, 1)] if k in (8, 9, 10, 19) else [(0, 0), (1, 1)]
        if tier == 'quick' and k in (14, 17): leafc = [(0, 0), (1, 1)]
        if tier == 'quick' and k in (3, 4, 5, 15): leafc = [(0, 0), (1, 1)]
        for op in (range(NOPS[k]) if (tier != 'quick' or k != 15) else (0, 2, 5)):
            for n in ns:
                for (la, lb) in (leafc if (tier != 'quick' or n == ns[-1]) else leafc[:1]):
                    hs.append(inst('h_equal_hash', k, op, op, la, lb, tv=0, claims=CE, known=['nan_constant'], n=n))
            if tier != 'quick' or op == 0:
                hs.append(inst('h_transitive', k, op, op, 0, 0, claims='Equal is transitive', n=ns[-1]))
        lq = 1 if (tier == 'quick' and k in ARITY) else 0
        if NOPS[k] > 1: hs.append(inst('h_equal_hash', k, 0, 1, lq, lq, claims=CE, known=['nan_constant'], n=ns[-1]))      # same category, different operator
        if k in LEAFY: hs.append(inst('h_equal_hash', k, 0, 0, 1, 2, claims=CE, known=['nan_constant'], n=ns[-1]))       # different leaf kinds
    for (ka, kb) in ([(0, 1), (1, 2), (4, 15), (13, 12)] if tier == 'quick' else [(a, b) for a in range(20) for b in range(20) if a < b]):
        d = Harness('h_kinds_differ', 'expr', unwind=10, timeout=to, mem_gb=16, bounds='two trees with root categories %d and %d' % (ka, kb), assumptions=A,
                    claims='different kinds never compare equal', tv_cases=0, defines=['KINDA=%d' % ka, 'KINDB=%d' % kb, 'OPA=0', 'OPB=0', 'LEAFA=0', 'LEAFB=0', 'NFIX=2'], flags=['--object-bits', '10'])
        d.label = 'h_kinds_differ[%d,%d]' % (ka, kb); hs.append(d)
    # translator validation once, on the fully symbolic variants (native runs only take the generic code path)
    hs[0].tv_cases = 3000
    return hs
