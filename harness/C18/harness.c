/* C18: expression equality is a structural equivalence consistent with hashing.
 * Two/three trees are built by the real ExprFactory from symbolic recipes (root of any of 20 categories over
 * numeric / logical leaf sub-expressions, depth <= 3); expected equality is computed on the recipes. */
#include "vf_harness.h"
#ifndef LEAFA
#define LEAFA (-1)
#define LEAFB (-1)
#endif
struct recipe { s32 kind, op, n; s32 leaf_kind[3]; s32 leaf_idx[3]; double leaf_val[3]; double val; s32 idx; double slope[3], bp[2]; s32 str_arg[2]; char str[2][3]; };
static const int NOPS[20] = {1, 1, 1, 3, 3, 1, 1, 1, 2, 1, 1, 1, 1, 1, 3, 6, 3, 1, 2, 2};
enum { SAME = 1, DIFF = 0, DONTCARE = 2 };
static int nan_inside;
static double anydbl(void) { double d = vf_nddouble(); if (d != d) nan_inside = 1; return d; }
static struct recipe A, B, C;
static void mk(struct recipe *r, int leafk) {
#if defined(KIND)
  r->kind = KIND;                       /* root category fixed per harness instance (enumerated shape) */
#elif defined(KINDA)
  r->kind = (r == &A) ? KINDA : KINDB;
#else
  r->kind = (s32)(vf_nd64() % 20);
#endif
  #ifdef OPA
  r->op = (r == &B) ? OPB : OPA;        /* operator fixed per instance: every node kind is concrete during symbolic execution */
#else
  r->op = (s32)(vf_nd64() % 6); VF_REQUIRE(r->op < NOPS[r->kind]);
#endif
#ifdef NFIX
  r->n = NFIX;                          /* arity fixed per instance (allocation sizes stay concrete) */
#else
  r->n = (s32)(vf_nd64() % 4);
#endif
  switch (r->kind) {       /* arities the factory accepts */
    case 6: VF_REQUIRE(r->n >= 1 && r->n <= 2); break;
    case 7: VF_REQUIRE(r->n <= 2); break;
    case 8: case 10: case 16: VF_REQUIRE(r->n >= 1); break;
    default: break;
  }
  for (int i = 0; i < 3; i++) { r->leaf_kind[i] = leafk >= 0 ? leafk : (s32)(vf_nd64() % 3); r->leaf_idx[i] = (s32)(vf_nd32() & 0x7fffffff); r->leaf_val[i] = anydbl(); }
  r->val = anydbl(); r->idx = (s32)(vf_nd32() & 0x7fffffff);
  for (int i = 0; i < 3; i++) r->slope[i] = anydbl();
  for (int i = 0; i < 2; i++) { r->bp[i] = anydbl(); r->str_arg[i] = vf_ndbool();
    u8 a = vf_nd8(), b = vf_nd8(); r->str[i][0] = (char)a; r->str[i][1] = a ? (char)b : 0; r->str[i][2] = 0; }
}
static int logical_leaves(int k) { return k == 11 || k == 13 || k == 14 || k == 16 || k == 17 || k == 18; }
static int dsame(double x, double y) { u64 a = vf_d2bits(x), b = vf_d2bits(y); if (a == b) return SAME; if (x == 0 && y == 0) return DONTCARE; return DIFF; }
static int both(int a, int b) { if (a == DIFF || b == DIFF) return DIFF; if (a == DONTCARE || b == DONTCARE) return DONTCARE; return SAME; }
static int numleaf_same(const struct recipe *a, const struct recipe *b, int i) {
  int ka = a->leaf_kind[i], kb = b->leaf_kind[i]; if (ka != kb) return DIFF;
  return ka == 0 ? dsame(a->leaf_val[i], b->leaf_val[i]) : (a->leaf_idx[i] == b->leaf_idx[i] ? SAME : DIFF);
}
static int logleaf_same(const struct recipe *a, const struct recipe *b, int i) {
  int ka = a->leaf_kind[i], kb = b->leaf_kind[i]; if (ka != kb) return DIFF;
  if (ka < 2) return ((a->leaf_idx[i] != 0) == (b->leaf_idx[i] != 0)) ? SAME : DIFF;
  return both(a->leaf_idx[i] == b->leaf_idx[i] ? SAME : DIFF, dsame(a->leaf_val[i], b->leaf_val[i]));
}
static int leaves_same(const struct recipe *a, const struct recipe *b, int from, int n, int logical) {
  int r = SAME; for (int i = 0; i < 3; i++) { if (i < from || i >= n) continue; r = both(r, logical ? logleaf_same(a, b, i) : numleaf_same(a, b, i)); } return r;
}
static int str_same(const struct recipe *a, const struct recipe *b, int i) { return (a->str[i][0] == b->str[i][0] && a->str[i][1] == b->str[i][1]) ? SAME : DIFF; }
/* the specification: same shape, operators, constants, references, argument order */
static int expected(const struct recipe *a, const struct recipe *b) {
  if (a->kind != b->kind) return DIFF;
  int k = a->kind, L = logical_leaves(k);
  switch (k) {
    case 0: return dsame(a->val, b->val);
    case 1: case 2: return a->idx == b->idx ? SAME : DIFF;
    case 12: return ((a->idx != 0) == (b->idx != 0)) ? SAME : DIFF;
    case 3: case 13: return a->op != b->op ? DIFF : leaves_same(a, b, 0, 1, L);
    case 4: case 14: case 15: return a->op != b->op ? DIFF : leaves_same(a, b, 0, 2, L);
    case 5: return both(((a->idx != 0) == (b->idx != 0)) ? SAME : DIFF, leaves_same(a, b, 0, 2, 0));
    case 17: return leaves_same(a, b, 0, 3, 1);
    case 6: { if (a->n != b->n) return DIFF; int r = SAME;
      for (int i = 0; i < 2; i++) { if (i >= a->n) break; r = both(r, both(dsame(a->slope[i], b->slope[i]), dsame(a->bp[i], b->bp[i]))); }
      r = both(r, dsame(a->slope[a->n], b->slope[a->n]));
      int ak = a->leaf_kind[0] == 2, bk = b->leaf_kind[0] == 2;
      return both(r, (ak == bk && a->leaf_idx[0] == b->leaf_idx[0]) ? SAME : DIFF); }
    case 7: { if ((a->idx & 1) != (b->idx & 1) || a->n != b->n) return DIFF; int r = SAME;
      for (int i = 0; i < 2; i++) { if (i >= a->n) break; if (a->str_arg[i] != b->str_arg[i]) return DIFF; r = both(r, a->str_arg[i] ? str_same(a, b, i) : numleaf_same(a, b, i)); }
      return r; }
    case 16: if (a->op != b->op || a->n != b->n) return DIFF; return both(dsame(a->val, b->val), leaves_same(a, b, 1, a->n, 1));
    default: /* 8 vararg, 9 sum, 10 numberof, 11 count, 18 iterated logical, 19 alldiff */
      if (a->op != b->op || a->n != b->n) return DIFF; return leaves_same(a, b, 0, a->n, L);
  }
}
#ifndef VF_REAL
/* fmt formatting of error-message text (UnsupportedError etc.): not the subject, empty body */
void _ZN3fmt14BasicFormatterIcNS_12ArgFormatterIcEEE6formatENS_15BasicCStringRefIcEE(char *self, char *fmt) { }
/* libstdc++'s std::_Hash_bytes (binary only): replaced by a deterministic mixing function of (bytes, seed); for
 * "equal => same hash" any function of the hashed bytes is sound */
u64 _ZSt11_Hash_bytesPKvmm(char *p, u64 len, u64 seed) { u64 h = seed ^ 0x9e3779b97f4a7c15ULL; for (u64 i = 0; i < 8; i++) { if (i >= len) break; h = ((h << 9) | (h >> 55)) ^ (u8)p[i]; } return h; }
#endif

void h_kinds_differ(void) {      /* roots of different categories never compare equal */
  nan_inside = 0; VF_REQUIRE(w_init() == 0); mk(&A, LEAFA); mk(&B, LEAFB); VF_REQUIRE(A.kind != B.kind);
  VF_REQUIRE(w_build(0, (char *)&A) == 0 && w_build(1, (char *)&B) == 0);
  VF_ASSERT(w_equal(0, 1) == 0 && w_equal(1, 0) == 0, "expressions of different kinds compare unequal"); VF_WITNESS();
}
void h_equal_hash(void) {
  nan_inside = 0;
  VF_REQUIRE(w_init() == 0); mk(&A, LEAFA); mk(&B, LEAFB);
#ifdef KF_nan_constant
  VF_REQUIRE(!nan_inside);
#endif
  VF_REQUIRE(w_build(0, (char *)&A) == 0 && w_build(1, (char *)&B) == 0 && w_build(2, (char *)&A) == 0);
  u32 e01 = w_equal(0, 1), e10 = w_equal(1, 0), e02 = w_equal(0, 2), e00 = w_equal(0, 0);
  VF_OBS(e01); VF_OBS(e10); VF_OBS(e02); VF_OBS(e00);
  int ex = expected(&A, &B);
  VF_ASSERT(e01 <= 1 && e10 <= 1 && e02 <= 1 && e00 <= 1, "Equal does not throw");
  VF_ASSERT(e01 == e10, "Equal is symmetric");
  VF_ASSERT(e00 == 1, "Equal is reflexive (an expression equals itself)");
  VF_ASSERT(e02 == 1, "an independently built copy compares equal");
  if (ex == SAME) VF_ASSERT(e01 == 1, "structurally identical trees compare equal");
  if (ex == DIFF) VF_ASSERT(e01 == 0, "trees that differ in shape, operator, constant, reference or argument order compare unequal");
  u64 h0 = 0, h1 = 0, h2 = 0;
  VF_ASSERT(w_hash(0, (char *)&h0) == 0 && w_hash(1, (char *)&h1) == 0 && w_hash(2, (char *)&h2) == 0, "hash does not throw");
  if (e01 == 1) VF_ASSERT(h0 == h1, "expressions that compare equal have the same hash");
  if (e02 == 1) VF_ASSERT(h0 == h2, "a copy has the same hash");
  VF_OBS(h0 == h1); VF_OBS(h0 == h2);
  VF_WITNESS();
}
void h_transitive(void) {
  nan_inside = 0;
  VF_REQUIRE(w_init() == 0); mk(&A, LEAFA); mk(&B, LEAFB); mk(&C, LEAFA);
  VF_REQUIRE(A.kind == B.kind && B.kind == C.kind);       /* otherwise trivially not equal */
  VF_REQUIRE(w_build(0, (char *)&A) == 0 && w_build(1, (char *)&B) == 0 && w_build(2, (char *)&C) == 0);
  u32 e01 = w_equal(0, 1), e12 = w_equal(1, 2), e02 = w_equal(0, 2);
  VF_OBS(e01); VF_OBS(e12); VF_OBS(e02);
  if (e01 == 1 && e12 == 1) VF_ASSERT(e02 == 1, "Equal is transitive");
  VF_WITNESS();
}
