// C14 harness TU: the real SOLReader2<Handler> (nl-writer2) with a checking handler whose callbacks are extern "C".
#include <new>
#include <stdexcept>
#include "mp/sol-reader2.hpp"
extern "C" {
int vf_h_take(int what, int offered);                 // how many of the offered values the handler reads
void vf_h_dbl(int what, double v, int ok_after);      // one dense value was read (what: 0 dual, 1 primal)
void vf_h_pair(int what, int idx, double v, int ok_after);
void vf_h_done(int what, int size_left, int result);  // handler returns from the callback
void vf_h_msg(const char* s, int nbs);
int vf_h_options(int n, int has_vbtol);
void vf_h_objno(int v); void vf_h_solve_code(int v);
void vf_h_suffix(int kind, const char* name, unsigned long namelen, const char* table, unsigned long tablen, int n);
}
struct H : mp::SOLHandler {
  mp::NLHeader hdr;
  mp::NLHeader Header() const { return hdr; }
  void OnSolveMessage(const char* s, int nbs) { vf_h_msg(s, nbs); }
  int OnAMPLOptions(const AMPLOptions& ao) { return vf_h_options((int)ao.options_.size(), ao.has_vbtol_); }
  template <class R> void dense(int what, R& rd) {
    int k = vf_h_take(what, rd.Size());
    for (int i = 0; i < k && rd.Size(); ++i) { double v = rd.ReadNext(); vf_h_dbl(what, v, rd.ReadResult() == NLW2_SOLRead_OK); }
    vf_h_done(what, rd.Size(), rd.ReadResult());
  }
  template <class R> void OnDualSolution(R& rd) { dense(0, rd); }
  template <class R> void OnPrimalSolution(R& rd) { dense(1, rd); }
  void OnObjno(int v) { vf_h_objno(v); }
  void OnSolveCode(int v) { vf_h_solve_code(v); }
  template <class R> void sparse(int what, R& sr) {
    const auto& si = sr.SufInfo();
    vf_h_suffix(si.Kind(), si.Name().c_str(), si.Name().size(), si.Table().c_str(), si.Table().size(), sr.Size());
    int k = vf_h_take(what, sr.Size());
    for (int i = 0; i < k && sr.Size(); ++i) { auto v = sr.ReadNext(); vf_h_pair(what, v.first, (double)v.second, sr.ReadResult() == NLW2_SOLRead_OK); }
    vf_h_done(what, sr.Size(), sr.ReadResult());
  }
  template <class R> void OnIntSuffix(R& sr) { sparse(2, sr); }
  template <class R> void OnDblSuffix(R& sr) { sparse(3, sr); }
};
struct R : mp::SOLReader2<H> {
  using mp::SOLReader2<H>::SOLReader2;
  int g(FILE* f) { return gsufread(f); }
  int b(FILE* f) { return bsufread(f); }
};
#define W extern "C" __attribute__((noinline))
#define GUARD(stmt) try { stmt; } catch (const std::length_error&) { return 1001; } catch (const std::bad_alloc&) { return 1002; } catch (...) { return 1003; }
// full reader on a file name
W int w_read_sol(const char* path, int nvars, int ncons) {
  GUARD(H h; h.hdr.num_vars = nvars; h.hdr.num_algebraic_cons = ncons; mp::NLUtils u; R r(h, u);
        return r.ReadSOLFile(path))
}
// suffix sections from an arbitrary position of an open file (text / binary)
W int w_gsufread(const char* path, int nvars, int ncons) {
  GUARD(H h; h.hdr.num_vars = nvars; h.hdr.num_algebraic_cons = ncons; mp::NLUtils u; R r(h, u);
        FILE* f = std::fopen(path, "rb"); if (!f) return -1; int rc = r.g(f); std::fclose(f); return rc)
}
W int w_bsufread(const char* path, int nvars, int ncons) {
  GUARD(H h; h.hdr.num_vars = nvars; h.hdr.num_algebraic_cons = ncons; mp::NLUtils u; R r(h, u);
        FILE* f = std::fopen(path, "rb"); if (!f) return -1; int rc = r.b(f); std::fclose(f); return rc)
}
W int w_lget(char* s, int* val, long* used) { char* p = s; int rc = mp::Lget(&p, val); *used = p - s; return rc; }
W int w_decstring(const char* s, double* v) { return mp::decstring(s, v); }
// suffix header validation on arbitrary header integers
struct R2 : R { using R::R; int shc(mp::SufRead* sr) { return sufheadcheck(sr); } };
W int w_sufheadcheck(int kind, int n, int namelen, int tablen, int tablines, long* xpsize, long* offs) {
  GUARD(H h; mp::NLUtils u; R2 r(h, u); mp::SufRead sr; sr.h.kind = kind; sr.h.n = n; sr.h.namelen = namelen; sr.h.tablen = tablen; sr.tablines = tablines;
        int rc = r.shc(&sr);
        if (!rc) { *xpsize = (long)sr.xp.size(); offs[0] = sr.name - sr.xp.data(); offs[1] = sr.table - sr.xp.data(); offs[2] = sr.tabname - sr.xp.data(); }
        return rc)
}
