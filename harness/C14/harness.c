/* C14: the SOL reader is total and memory safe on arbitrary files (symbolic file content over a file model). */
#include "vf_harness.h"
#ifndef VF_FILEMAX
#define VF_FILEMAX 32
#endif
extern u8 vf_fbytes[]; extern u32 vf_flen, vf_fpos; extern int vf_fopen_fails;
static int decl_vars, decl_cons;
static int offered_bad, partial_pending[4], took[4];
#ifdef VF_REAL
#include <stdio.h>
#include <unistd.h>
#include <stdlib.h>
static u8 rb[VF_FILEMAX + 1]; static u32 rlen; static char path[64];
#define FB rb
#define FLEN rlen
#else
#define FB vf_fbytes
#define FLEN vf_flen
static char path[8] = "vf.sol";
#endif
/* the symbolic file: length 0..VF_FILEMAX, arbitrary bytes; first `nfix` bytes may be fixed by the harness */
static void mkfile(const char *prefix, u32 nfix) {
  u32 n = (u32)vf_nd64(); VF_REQUIRE(n <= VF_FILEMAX && n >= nfix); FLEN = n;
  for (u32 i = 0; i < VF_FILEMAX; i++) { u8 c = vf_nd8(); FB[i] = i < nfix ? (u8)prefix[i] : c; }
#ifdef VF_REAL
  { const char *td = getenv("VF_TMP"); snprintf(path, sizeof path, "%s/vf_c14_%d.sol", td ? td : "/tmp", (int)getpid()); }      /* VF_TMP: the check's scratch directory (removed at the end of the run) */
  FILE *f = fopen(path, "wb"); fwrite(rb, 1, rlen, f); fclose(f);
#else
  vf_fopen_fails = 0;
#endif
  for (int k = 0; k < 4; k++) { partial_pending[k] = 0; took[k] = 0; }
}
static void setsizes(void) { decl_vars = (int)vf_nd32(); decl_cons = (int)vf_nd32(); VF_REQUIRE(decl_vars >= 0 && decl_cons >= 0); }
/* ---- handler callbacks (called from the real reader through the C++ handler in wrap.cc) ---- */
u32 vf_h_take(u32 what, u32 offered) {
  VF_OBS(1000 + what); VF_OBS(offered);
  VF_ASSERT((s32)offered >= 0, "negative number of values offered to the handler");
  if (what == 0) VF_ASSERT((s32)offered <= decl_cons, "more dual values offered than the problem has constraints");
  if (what == 1) VF_ASSERT((s32)offered <= decl_vars, "more primal values offered than the problem has variables");
  u32 k = (u32)(vf_nd64() % 4);          /* the handler reads none, some or all (<=3) of the offered values */
  return k;
}
void vf_h_dbl(u32 what, vf_f64 v, u32 ok_after) { VF_OBS(ok_after); took[what & 3]++; if (!ok_after) partial_pending[what & 3] = 1; }
void vf_h_pair(u32 what, u32 idx, vf_f64 v, u32 ok_after) { VF_OBS(idx); VF_OBS(ok_after); took[what & 3]++; if (!ok_after) partial_pending[what & 3] = 1; }
void vf_h_done(u32 what, u32 size_left, u32 result) {
  VF_OBS(size_left); VF_OBS(result);
  if (partial_pending[what & 3]) VF_ASSERT(result != 0, "a vector whose read failed midway is reported as complete (result OK)");
}
void vf_h_msg(char *s, u32 nbs) { VF_OBS(2000); u32 n = 0; for (; n <= VF_FILEMAX + 1; n++) { if (!s[n]) break; } VF_ASSERT(s[n] == 0, "solve message longer than the file"); VF_OBS(n); VF_OBS(nbs); }
u32 vf_h_options(u32 n, u32 has_vbtol) { VF_OBS(3000 + n); VF_ASSERT(n >= 6 && n <= 14, "AMPL options block size outside the documented 3..9 options"); return 0; }
void vf_h_objno(u32 v) { VF_OBS(4000); VF_OBS(v); }
void vf_h_solve_code(u32 v) { VF_OBS(v); }
void vf_h_suffix(u32 kind, char *name, u64 namelen, char *table, u64 tablen, u32 n) {
  VF_OBS(5000 + kind); VF_OBS(namelen); VF_OBS(tablen); VF_OBS(n);
  VF_ASSERT(kind <= 15, "suffix kind outside 0..15"); VF_ASSERT((s32)n >= 0, "negative suffix value count");
  VF_ASSERT(namelen <= VF_FILEMAX && tablen <= VF_FILEMAX, "suffix name/table longer than the file");
  VF_ASSERT(name[namelen] == 0 && table[tablen] == 0, "suffix name/table not terminated at the stated length");
}
#ifndef VF_REAL
/* SOLReader2::serror (vsnprintf formatting of the diagnostic): message text is not the subject */
void _ZN2mp10SOLReader2I1HE6serrorEPKcz(char *self, char *fmt, ...) { }
#endif
static int known_code(u32 rc) { return rc <= 10 || rc == (u32)-1; }   /* NLW2_SOLRead_* (0..10); -1: fopen failed in wrapper */
static void check_rc(u32 rc) {
  VF_OBS(rc);
  VF_ASSERT(rc != 1001, "std::length_error escapes the SOL reader (file-controlled size)");
  VF_ASSERT(rc != 1002, "std::bad_alloc escapes the SOL reader (file-controlled size)");
  VF_ASSERT(rc != 1003, "an exception escapes the SOL reader");
  VF_ASSERT(known_code(rc), "result is not one of the documented NLW2_SOLRead codes");
}
void h_gsufread(void) {     /* text suffix sections, from any file position state */
  setsizes();
#ifdef FIXPREFIX
  mkfile("suffix ", 7);
#else
  mkfile("", 0);
#endif
  check_rc(w_gsufread(path, decl_vars, decl_cons)); VF_WITNESS();
}
void h_bsufread(void) { setsizes(); mkfile("", 0); check_rc(w_bsufread(path, decl_vars, decl_cons)); VF_WITNESS(); }
void h_read_sol(void) { setsizes(); mkfile("", 0); check_rc(w_read_sol(path, decl_vars, decl_cons)); VF_WITNESS(); }
void h_read_sol_text(void) {   /* text file whose (empty) message already ended: options / vectors / objno reachable with few bytes */
  setsizes(); mkfile("\n", 1); check_rc(w_read_sol(path, decl_vars, decl_cons)); VF_WITNESS(); }
void h_read_sol_binary(void) { /* binary magic fixed: uiolen 6, "binary", uiolen 6 */
  setsizes(); mkfile("\6\0\0\0binary\6\0\0\0", 14); check_rc(w_read_sol(path, decl_vars, decl_cons)); VF_WITNESS(); }
#ifndef VF_REAL
/* std::vector<char>::_M_default_append(n) on the (empty) scratch vector of SufRead: length_error for n > max_size,
 * zero-filled block for n <= 4096; larger (but valid) sizes are outside the bound */
void _ZNSt6vectorIcSaIcEE17_M_default_appendEm(char *v, u64 n) {
  if (n > 0x7fffffffffffffffULL) { _ZSt20__throw_length_errorPKc((char *)"vector::_M_default_append"); return; }
  VF_REQUIRE(n <= 4096);
  char *p = vf_malloc(n ? n : 1); memset(p, 0, n);
  *(char **)v = p; *(char **)(v + 8) = p + n; *(char **)(v + 16) = p + n;
}
#endif
void h_sufheadcheck(void) {
  u32 kind = vf_nd32(), n = vf_nd32(), namelen = vf_nd32(), tablen = vf_nd32(), tablines = vf_nd32(); s64 xps = 0, offs[3] = {0, 0, 0};
#ifdef KF_suf_size_overflow
  VF_REQUIRE((s64)(s32)tablen + 2 * (s64)(s32)namelen + 6 <= 0x7fffffffLL && (s32)tablen != 0x7fffffff);
#endif
#ifndef __CPROVER__
  VF_REQUIRE((s64)(s32)tablen + 2 * (s64)(s32)namelen + 6 <= 4096 || (s64)(s32)tablen + 2 * (s64)(s32)namelen + 6 > 0x7fffffffLL);
#endif
  u32 rc = w_sufheadcheck(kind, n, namelen, tablen, tablines, (char *)&xps, (char *)offs);
  VF_OBS(rc);
  VF_ASSERT(rc != 1001, "std::length_error escapes sufheadcheck (scratch size overflows int)");
  VF_ASSERT(rc == 0 || rc == 1, "sufheadcheck returns accept/reject");
  if (rc == 0) {
    VF_OBS(xps);
    VF_ASSERT((s32)kind >= 0 && kind <= 15 && (s32)n >= 0 && (s32)namelen >= 2 && (s32)tablen >= 0, "accepted header has valid kind/n/namelen/tablen");
    VF_ASSERT(xps == (s64)(s32)tablen + 2 * (s64)(s32)namelen + 6, "scratch buffer has room for name, table and table name");
    VF_ASSERT(offs[0] == 0 && offs[1] == (s64)(s32)namelen && offs[2] == (s64)(s32)namelen + (s64)(s32)tablen, "name/table/tabname pointers inside the scratch buffer");
  }
  VF_WITNESS();
}
void h_lget(void) {
  u32 n = (u32)vf_nd64(); VF_REQUIRE(n <= 12);
  char *b = vf_malloc(14);
  for (u32 i = 0; i < 14; i++) { u8 c = vf_nd8(); if (i < n) VF_REQUIRE(c != 0); b[i] = i == n ? 0 : (char)c; }
  u32 val = 0; s64 used = 0; u32 rc = w_lget(b, (char *)&val, (char *)&used);
  VF_OBS(rc); VF_ASSERT(rc == 0 || rc == 1, "Lget result");
  if (rc == 0) { VF_OBS(val); VF_OBS(used); VF_ASSERT(used >= 1 && used <= (s64)n, "Lget cursor inside the line"); VF_ASSERT((s32)val >= 0, "Lget returns a non-negative integer"); }
  VF_WITNESS();
}

/* ---- whole text reader on a well-formed skeleton: line structure, the AMPL option block "3 1 1 0" and the announced numbers of dual /
 * primal values (ND, NP) are concrete (they fix every file position), all other numbers are symbolic digits; declared sizes symbolic ---- */
#ifndef ND
#define ND 1
#endif
#ifndef NP
#define NP 1
#endif
static u32 off_d, off_p, seen_objno, seen_code, v_objno, v_code;
static void put(const char *t) { for (u32 i = 0; t[i]; i++) { u8 c = (u8)t[i]; if (c == '#') c = (u8)('0' + vf_ndrange(0, 9)); FB[FLEN++] = c; } }
void h_read_sol_skel(void) {
  setsizes(); FLEN = 0;
  put("m\n\nOptions\n3\n1\n1\n0\n#\n"); FB[FLEN++] = (u8)('0' + ND); put("\n#\n"); FB[FLEN++] = (u8)('0' + NP); put("\n");
  for (u32 i = 0; i < ND; i++) put("#\n");
  for (u32 i = 0; i < NP; i++) put("#\n");
  u32 po = FLEN; put("objno # #\n"); u32 objd = FB[po + 6] - '0', coded = FB[po + 8] - '0';
#ifdef VF_REAL
  { const char *td = getenv("VF_TMP"); snprintf(path, sizeof path, "%s/vf_c14_%d.sol", td ? td : "/tmp", (int)getpid()); }      /* VF_TMP: the check's scratch directory (removed at the end of the run) */
  { FILE *f = fopen(path, "wb"); fwrite(rb, 1, rlen, f); fclose(f); }
#else
  vf_fopen_fails = 0;
#endif
  for (int k = 0; k < 4; k++) { partial_pending[k] = 0; took[k] = 0; }
  u32 rc = w_read_sol(path, decl_vars, decl_cons);
  check_rc(rc);
  int fits = ND <= (u32)decl_cons && NP <= (u32)decl_vars;
  VF_ASSERT((rc == 0) == (fits != 0), "a solution announcing more dual / primal values than the problem has constraints / variables is rejected, any other well-formed file is accepted");
  VF_WITNESS();
}
