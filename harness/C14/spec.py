from vfeng import Unit, Harness
PROPERTY = 'C14'
EXT = ['_ZNSt6vectorIcSaIcEE17_M_default_appendEm', 'fopen', 'fclose', 'fread', 'fgets', 'getc', 'ungetc', 'rewind', 'strtol', 'strtod', 'strcpy', '__errno_location',
       'vf_h_take', 'vf_h_dbl', 'vf_h_pair', 'vf_h_done', 'vf_h_msg', 'vf_h_options', 'vf_h_objno', 'vf_h_solve_code', 'vf_h_suffix',
       '_ZN2mp10SOLReader2I1HE6serrorEPKcz']
def units(tier):
    F = 48 if tier == 'quick' else 48
    u = Unit('solreader', 'wrap.cc', 'harness.c', externs=EXT, extra_repo_cc=['nl-writer2/src/nl-utils.cc'], ll2c_args=['--inline-mem', '1024'])
    u.cdefs = ['VF_FILEMAX=%d' % F]; u.tool_c = ['vf_file.c']
    return [u]
def harnesses(tier):
    F = 48 if tier == 'quick' else 48
    A = ['file = arbitrary byte string of length 0..%d (every byte value) read through a deterministic stdio model (fgets/fread/getc/ungetc/rewind); libc strtol/strtod modelled (end pointer exact; value exact for integers <= 15 digits, otherwise arbitrary non-NaN)' % F,
         'declared problem sizes: any int >= 0; the handler reads 0..3 of each offered vector',
         'serror (vsnprintf formatting of the diagnostic text) is a stub; allocation never fails']
    U = F + 6
    mk = lambda n, c, k=(), t=400, to=600, dfs=(): Harness(n, 'solreader', unwind=U, bounds='file <= %d bytes, unwind %d' % (F, U), claims=c, assumptions=A,
                                                  known=list(k), tv_cases=t, timeout=to if tier == 'quick' else 7200, mem_gb=24, defines=list(dfs), flags=['--object-bits', '10'])
    hs = [
      mk('h_sufheadcheck', 'sufheadcheck on arbitrary header integers: accept => valid fields and a scratch buffer that holds name+table (no int overflow in tablen+2*namelen+6, no exception)', ['suf_size_overflow'], 800, 300),
      mk('h_lget', 'Lget: integer field parser of suffix headers: inside the line, no signed overflow, non-negative result', ['lget_overflow'], 600),
      mk('h_gsufread', 'gsufread (text suffix sections): memory safe, no UB, documented result code, no exception, suffix name/table terminated', ['gsuf_namelen', 'suf_resize'], 600, dfs=['FIXPREFIX']),
      mk('h_bsufread', 'bsufread (binary suffix sections): same', ['suf_resize'], 600),
      mk('h_read_sol_text', 'ReadSOLFile, text format after the message terminator: options block, counts vs declared sizes, dual/primal vectors, objno line', [], 600),
      mk('h_read_sol_binary', 'ReadSOLFile, binary format after the magic record: message records, options record, vectors', [], 600),
      mk('h_read_sol', 'ReadSOLFile on an arbitrary file from byte 0 (format detection, message loop)', [], 600),
    ]
    hs[0].unwind = 8
    sk = []
    for nd in (0, 1, 2):
        for np_ in (0, 1, 2):
            if tier == 'quick' and (nd, np_) in ((0, 0), (1, 1)): continue
            h = mk('h_read_sol_skel', 'ReadSOLFile (text) on a well-formed file with %d dual and %d primal values: accepted iff the announced vector lengths fit the declared problem sizes; vectors offered to the handler never exceed them' % (nd, np_), [], 0, 300, ['ND=%d' % nd, 'NP=%d' % np_])
            h.label = 'h_read_sol_skel[d%d,p%d]' % (nd, np_); h.unwindset = ['vf_c_fgets.0:520']; h.assumptions = A[1:] + ['file skeleton concrete (message, option block 3 1 1 0, announced vector lengths), every other number a symbolic decimal digit']; h.bounds = 'text .sol skeleton, %d duals / %d primals, symbolic digits, any declared sizes' % (nd, np_); sk.append(h)
    if tier == 'quick': hs = hs[:2]
    else: hs += sk      # the skeleton harness still does not finish symbolic execution in 5 min: thorough tier only     # whole-function harnesses: thorough tier only (symbolic execution of the monolithic reader needs > 15 min)
    return hs
