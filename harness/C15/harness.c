/* C15: an interrupt is never lost and never delivered with inconsistent state.
 * The schedule (where each of <=3 signals is delivered) is symbolic: vf_yield() is called before every
 * store to SignalHandler's static members (inserted by ll2c from the IR; by the MP_VERIF_SIGPOINT hooks in
 * the replay build) and between the harness steps. */
#include "vf_harness.h"
#ifndef MAXSIG
#define MAXSIG 3
#endif
#ifdef VF_REAL
#define SITE_CODE(s) (s)
#else
#include "sites.h"   /* generated: ll2c yield-site id -> canonical code (100+k ctor, 200+k dtor, 300+k SetHandler, 400+k handler) */
#define SITE_CODE(s) ((s) >= 900 ? (s) : vf_site_code[(s)])
#endif
#ifdef VF_REAL
static void call_installed(u32 sig);
#define HANDLE_SIG_INT call_installed
#else
#define HANDLE_SIG_INT _ZN2mp8internal13SignalHandler12HandleSigIntEi
#endif
static char *hobj[8];          /* SignalHandler object (pointer-typed storage) */
static char *simg[128];        /* image of the BasicSolver the handler points at (only set_interrupter's field is written) */
static char *disp[2];          /* installed dispositions for SIGINT / SIGTERM */
static int nsig, in_handler, must_stop, reg_complete, busy, dtor_started, destroyed, ctor_done;
static int cb_calls, cb_last, exited;
static char d1, d2;
u8 cb1(char *d) { cb_calls++; cb_last = 1; VF_ASSERT(d == &d1, "callback 1 invoked with the data of another registration"); return 1; }
u8 cb2(char *d) { cb_calls++; cb_last = 2; VF_ASSERT(d == &d2, "callback 2 invoked with the data of another registration"); return 1; }

/* ---- environment (libc) ---- */
char *vf_c_signal(u32 sig, char *fn) { if (sig == 2) disp[0] = fn; else if (sig == 15) disp[1] = fn; return 0; }
char *vf_c_getenv(char *n) { return 0; }
u64 vf_c_write(u32 fd, char *p, u64 n) {
  VF_ASSERT(n == 0 || !destroyed, "signal handler writes from the destroyed message buffer");
  return vf_ndbool() ? (u64)-1 : n;
}
void vf_c__exit(u32 code) {
  VF_ASSERT(nsig >= 3 || dtor_started, "process terminated before the third interrupt");
  exited = 1; VF_OBS(777);
  VF_REQUIRE(0);   /* the process is gone: end of this execution */
}
#ifndef VF_REAL
/* the indirect call `handler(data_)` in HandleSigInt (ll2c --icall-hook): the only functions ever
 * registered are cb1/cb2; anything else reaching the call is reported */
u8 vf_icall_u8_charp(char *fp, char *a0) {
  if (fp == (char *)&cb1) return cb1(a0);
  if (fp == (char *)&cb2) return cb2(a0);
  VF_ASSERT(0, "signal handler calls a function pointer that was never registered");
  return 0;
}
/* fmt::format (message text is not the subject): stub returning an 18-character heap std::string
 * in libstdc++'s layout {char* p; size_t size; union { char buf[16]; size_t capacity; }} */
void _ZN3fmt6formatB5cxx11ENS_15BasicCStringRefIcEENS_7ArgListE(char *sret, char *fmt, u64 types, char *args) {
  char *p = vf_malloc(19);
  for (int i = 0; i < 18; i++) p[i] = 'x';
  p[18] = 0;
  *(char **)sret = p; *(u64 *)(sret + 8) = 18; *(u64 *)(sret + 16) = 18;
}
#endif
#ifdef VF_REAL
/* replay build: the real solver.cc calls libc; route the four environment calls to the same model */
typedef void (*sigh_t)(int);
sigh_t signal(int s, sigh_t h) { vf_c_signal(s, (char *)h); return 0; }
long write(int fd, const void *p, unsigned long n) { return (long)vf_c_write(fd, (char *)p, n); }
void _exit(int c) { vf_c__exit(c); for (;;) ; }
#endif

#ifdef VF_REAL
static char *cur_h;
static void call_installed(u32 sig) { ((void (*)(u32))cur_h)(sig); }   /* private static member: reachable only via the installed pointer */
#endif
static void deliver(void) {
  int which = vf_ndbool();
  char *h = disp[which];
  if (!h) return;                         /* not installed yet: outside the property */
  nsig++; in_handler = 1; cb_calls = 0;
  int expect = (!busy && !destroyed) ? reg_complete : -1;
  int was_destroyed = destroyed, was_dtor = dtor_started;
#ifdef VF_REAL
  cur_h = h; h = (char *)&call_installed;
#endif
  VF_ASSERT(h == (char *)&HANDLE_SIG_INT, "installed disposition is SignalHandler::HandleSigInt");
  if (h != (char *)&HANDLE_SIG_INT) { in_handler = 0; return; }
  HANDLE_SIG_INT(which ? 15 : 2);         /* SignalHandler::HandleSigInt, as installed by the code itself */
  in_handler = 0;
  VF_OBS(nsig); VF_OBS(cb_calls); VF_OBS(cb_last);
  VF_ASSERT(nsig < 3, "third interrupt did not terminate the process");
  if (expect == 0) VF_ASSERT(cb_calls == 0, "a callback was invoked although none is registered");
  if (expect > 0) VF_ASSERT(cb_calls == 1 && cb_last == expect, "the registered callback was not invoked exactly once");
  if (was_destroyed) VF_ASSERT(cb_calls == 0, "callback invoked after the handler object was destroyed");
  if (!was_dtor) must_stop = 1;
}
static void maybe_deliver(int code) {
  if (in_handler || code >= 400 && code < 900) return;   /* no nested delivery inside the handler (stated bound) */
  if (nsig >= MAXSIG) return;
  if (!disp[0] && !disp[1]) return;
  if (!vf_ndbool()) return;
  VF_OBS(code);
  deliver();
}
void vf_marker(u32 code) { maybe_deliver((int)code); }      /* MP_VERIF_SIGPOINT(code) in the real source */
void vf_yield(int site) { maybe_deliver(site); }              /* between harness steps (codes >= 900) */
static void check_stop(const char *unused) {
  if (must_stop) VF_ASSERT(w_stop((char *)hobj) != 0, "an interrupt delivered after installation is not observed by Stop()");
}
void h_schedule(void) {
  nsig = in_handler = must_stop = reg_complete = busy = dtor_started = destroyed = ctor_done = cb_calls = cb_last = exited = 0;
  disp[0] = disp[1] = 0;
  VF_REQUIRE(w_sizeof_handler() <= sizeof hobj);
  w_init_hooks();
  int nreg = (int)(vf_nd64() % 3);
  busy = 1; w_construct((char *)hobj, (char *)simg); busy = 0; ctor_done = 1;
  VF_ASSERT(disp[0] && disp[1], "constructor installs SIGINT and SIGTERM handlers");
  check_stop(0);
  vf_yield(900); check_stop(0);
  if (nreg >= 1) {
    busy = 1; w_set_handler((char *)hobj, (char *)&cb1, &d1); busy = 0; reg_complete = 1;
    check_stop(0); vf_yield(901); check_stop(0);
  }
  if (nreg >= 2) {
    busy = 1; w_set_handler((char *)hobj, (char *)&cb2, &d2); busy = 0; reg_complete = 2;
    check_stop(0); vf_yield(902); check_stop(0);
  }
  VF_OBS(w_stop((char *)hobj));
  busy = 1; dtor_started = 1; w_destroy((char *)hobj); busy = 0; destroyed = 1;
  vf_yield(903);
  vf_yield(904);
  vf_yield(905);
  VF_WITNESS();
}
