// C15 harness TU: the real SignalHandler from src/solver.cc (whole file included).
#include "solver.cc"
using mp::internal::SignalHandler;
#define W extern "C" __attribute__((noinline))
W unsigned long w_sizeof_handler() { return sizeof(SignalHandler); }
W void w_construct(void* mem, void* solver_image) { new (mem) SignalHandler(*reinterpret_cast<mp::BasicSolver*>(solver_image)); }
W void w_destroy(void* mem) { static_cast<SignalHandler*>(mem)->~SignalHandler(); }
W void w_set_handler(void* mem, mp::InterruptHandler h, void* data) { static_cast<SignalHandler*>(mem)->SetHandler(h, data); }
W int w_stop(void* mem) { return static_cast<SignalHandler*>(mem)->Stop(); }
#ifdef VF_REAL_BUILD
// replay build (-DAMPL_MP_VERIF): the source-level hook points call the harness scheduler
extern "C" void vf_yield(int);
static void vf_hook(int n) { vf_yield(n); }
W void w_init_hooks() { mp::internal::mp_verif_sigpoint = vf_hook; }
#else
W void w_init_hooks() {}
#endif
