// C15 harness TU: the real SignalHandler from src/solver.cc (whole file included).
#include "solver.cc"
using mp::internal::SignalHandler;
#define W extern "C" __attribute__((noinline))
W unsigned long w_sizeof_handler() { return sizeof(SignalHandler); }
W void w_construct(void* mem, void* solver_image) { new (mem) SignalHandler(*reinterpret_cast<mp::BasicSolver*>(solver_image)); }
W void w_destroy(void* mem) { static_cast<SignalHandler*>(mem)->~SignalHandler(); }
W void w_set_handler(void* mem, mp::InterruptHandler h, void* data) { static_cast<SignalHandler*>(mem)->SetHandler(h, data); }
W int w_stop(void* mem) { return static_cast<SignalHandler*>(mem)->Stop(); }
// Both the translated code and the replay build are compiled with -DAMPL_MP_VERIF: the source-level markers MP_VERIF_SIGPOINT(n) call the
// harness scheduler, so a delivery point is identified by its marker number in both worlds (independent of how many stores the code has)
extern "C" void vf_marker(int);
static void vf_hook(int n) { vf_marker(n); }
W void w_init_hooks() { mp::internal::mp_verif_sigpoint = vf_hook; }
