import os, json, re
from vfeng import Unit, Harness
PROPERTY = 'C15'
BASE = [('13SignalHandlerC2', 100), ('13SignalHandlerD2', 200), ('13SignalHandler10SetHandler', 300), ('13SignalHandler12HandleSigInt', 400),
        ('w_construct', 100), ('w_destroy', 200), ('w_set_handler', 300)]
def post(check, info):
    """sites.h: ll2c yield-site id -> canonical code = base(function) + ordinal of the access in that function"""
    sites = info['report']['yield_sites']; cnt = {}; codes = []
    for st in sites:
        b = [v for k, v in BASE if k in st['function']]
        b = b[0] if b else 800
        k = cnt.get(st['function'], 0); cnt[st['function']] = k + 1; codes.append(b + k)
    open(os.path.join(info['dir'], 'sites.h'), 'w').write('static const int vf_site_code[] = {%s};\n' % ', '.join(map(str, codes + [899])))
    info['site_codes'] = [{'code': c, 'function': s['function'][:60], 'access': s['access'], 'global': s['global']} for c, s in zip(codes, sites)]
def units(tier):
    u = Unit('sighandler', 'wrap.cc', 'harness.c', ll2c_args=['--icall-hook', '12HandleSigInt', ], san=False, cxxflags=['-DAMPL_MP_VERIF'], extra_repo_cc=['src/format.cc'], externs=['vf_marker', 'signal', 'getenv', 'write', '_exit', '_ZN3fmt6formatB5cxx11ENS_15BasicCStringRefIcEENS_7ArgListE'])
    u.post = post; u.cdefs = ['VF_OWN_YIELD']; u.stub_undefined = True; u.real_cxxflags = []
    return [u]
def harnesses(tier):
    A = ['signals are delivered at the source-level markers MP_VERIF_SIGPOINT(n) (one before every store to SignalHandler\'s static members in the constructor, SetHandler and the destructor; the unit is compiled with -DAMPL_MP_VERIF) or between harness steps',
         'no nested delivery inside HandleSigInt (bound)', 'fmt::format (text of the break message) is a stub returning an 18-character heap string', 'write() returns -1 or the full size; getenv returns NULL; _exit ends the execution',
         'single thread + its signal handler: atomics are sequentially consistent']
    return [Harness('h_schedule', 'sighandler', unwind=40, timeout=400, mem_gb=16,
        bounds='<=3 signals (SIGINT/SIGTERM each symbolic), 0..2 registrations, all delivery points in ctor/SetHandler/dtor and between steps',
        claims='after-install signals observed by Stop(); callback/data pairing; registered callback invoked exactly once; third interrupt reaches _exit; nothing invoked / no message read after destruction',
        assumptions=A, known=['ctor_stop_reset', 'sethandler_order'], tv_cases=300, flags=['--max-field-sensitivity-array-size', '256'])]
