/* C05: what the SOL writer writes, the SOL reader reads back.  Message section: real WriteMessage -> file -> real ReadSOLFile. */
#include "vf_harness.h"
#ifndef VF_FILEMAX
#define VF_FILEMAX 96
#endif
#ifndef MSGLEN
#define MSGLEN 3
#endif
#ifndef NLMASK
#define NLMASK 2
#endif
#ifndef DIGMAX
#define DIGMAX 9
#endif
extern u8 vf_fbytes[]; extern u32 vf_flen, vf_fpos; extern int vf_fopen_fails;
#ifdef VF_REAL
#include <stdio.h>
#include <unistd.h>
#include <stdlib.h>
static char path[64];
#else
static char path[8] = "vf.sol";
#endif
static char msg[MSGLEN + 1];
static char got[VF_FILEMAX + 2]; static u32 gotlen, got_nbs, msg_calls, objno_v, code_v, n_objno, n_code, dual_n, primal_n;
u32 vf_h_take(u32 what, u32 offered) { if (what == 0) dual_n = offered; if (what == 1) primal_n = offered; return 0; }
void vf_h_dbl(u32 what, vf_f64 v, u32 ok_after) { }
void vf_h_pair(u32 what, u32 idx, vf_f64 v, u32 ok_after) { }
void vf_h_done(u32 what, u32 size_left, u32 result) { }
void vf_h_msg(char *s, u32 nbs) { msg_calls++; got_nbs = nbs; u32 n = 0; for (; n <= VF_FILEMAX; n++) { got[n] = s[n]; if (!s[n]) break; } gotlen = n; }
u32 vf_h_options(u32 n, u32 has_vbtol) { return 0; }
void vf_h_objno(u32 v) { objno_v = v; n_objno++; }
void vf_h_solve_code(u32 v) { code_v = v; n_code++; }
void vf_h_suffix(u32 kind, char *name, u64 namelen, char *table, u64 tablen, u32 n) { }
#ifndef VF_REAL
void _ZN2mp10SOLReader2I1HE6serrorEPKcz(char *self, char *fmt, ...) { }
void _ZN3fmt14BasicFormatterIcNS_12ArgFormatterIcEEE6formatENS_15BasicCStringRefIcEE(char *self, char *fmt) { }
#endif
/* the part of the file that follows the message, as WriteSolFile prints it for an empty solution (no options, no vectors): trusted text */
static const char TAIL[] = "Options\n0\n0\n0\n0\nobjno 0 0\n";
static void append_tail(void) {
#ifdef VF_REAL
  FILE *f = fopen(path, "ab"); fputs("Options\n", f); fputs(TAIL + 8, f); fclose(f);
#else
  for (u32 i = 0; i + 1 < sizeof TAIL; i++) { VF_REQUIRE(vf_flen < VF_FILEMAX); vf_fbytes[vf_flen++] = (u8)TAIL[i]; }
#endif
}
/* enumerated shape: message length and the positions of its newlines are concrete (they steer writer and reader), all other bytes symbolic */
void h_message(void) {
  for (u32 i = 0; i < MSGLEN; i++) {
    if ((NLMASK >> i) & 1) msg[i] = '\n';
    else { u8 c = vf_nd8(); VF_REQUIRE(c != 0 && c != '\n' && c != '\r' && c != '\b'); msg[i] = (char)c; }
  }
  msg[MSGLEN] = 0;
#ifdef VF_REAL
  { const char *td = getenv("VF_TMP"); snprintf(path, sizeof path, "%s/vf_c05_%d.sol", td ? td : "/tmp", (int)getpid()); }      /* VF_TMP: the check's scratch directory (removed at the end of the run) */
#else
  vf_flen = 0; vf_fpos = 0; vf_fopen_fails = 0;
#endif
  gotlen = 0; msg_calls = 0; n_objno = 0; n_code = 0;
  u32 wrc = w_write_message(path, msg);
  VF_ASSERT(wrc == 0, "writer raises no exception");
  append_tail();
  u32 rc = w_read_sol(path, 0, 0);
  VF_OBS(rc); VF_OBS(gotlen);
  VF_ASSERT(rc == 0, "reader accepts the file the writer produced");
  VF_ASSERT(msg_calls == 1 && n_objno == 1 && n_code == 1, "message, objno and solve code each delivered once");
  /* expected: the message line by line, each line terminated by \\n; an empty line comes back as the reserved " " */
  char exp[2 * MSGLEN + 4]; u32 el = 0, ls = 0;
  for (u32 i = 0; i <= MSGLEN; i++) {
    if (i == MSGLEN || msg[i] == '\n') {
      if (i == MSGLEN && ls == i && MSGLEN > 0) break;          /* nothing after a final newline */
      if (ls == i && i < MSGLEN) exp[el++] = ' ';                 /* empty line inside the message */
      for (u32 k = ls; k < i; k++) exp[el++] = msg[k];
      exp[el++] = '\n'; ls = i + 1;
    }
  }
  exp[el] = 0;
  VF_ASSERT(got_nbs == 0, "no backspaces counted");
  VF_ASSERT(gotlen == el, "message comes back with the same lines");
  if (gotlen == el) for (u32 i = 0; i < 2 * MSGLEN + 3; i++) { if (i >= el) break; VF_OBS(got[i]); VF_ASSERT(got[i] == exp[i], "message bytes identical (empty line <-> reserved single space)"); }
  VF_ASSERT(objno_v == 0 && code_v == 0, "objno / solve code of the tail delivered");
#ifdef VF_REAL
  unlink(path);
#endif
  VF_WITNESS();
}

/* ---- options block, counts line, objno/solve code: the real WriteSolFile (real {fmt} integer formatting) -> file -> real reader ---- */
#ifndef NOPTS
#define NOPTS 3
#endif
static u32 opt_calls, opt_n, opt_vbtol;
void h_header(void) {
  static u64 opts[9]; static double dummy[1];
  for (u32 i = 0; i < 9; i++) opts[i] = 0;
  /* AMPL option block: opts[0] = count... the writer prints num_options then each option; the documented form has 3..9 values (the
   * second value 3 announces the vbtol form, which needs a real number: not generated here) */
  for (u32 i = 0; i < NOPTS; i++) { opts[i] = vf_ndrange(0, DIGMAX); }
#if NOPTS >= 3
  VF_REQUIRE(opts[1] != 3);
#endif
  u32 nvars = (u32)vf_ndrange(0, DIGMAX), ncons = (u32)vf_ndrange(0, DIGMAX), objno = (u32)vf_ndrange(0, DIGMAX), status = (u32)vf_ndrange(0, DIGMAX);
  msg[0] = 'm'; msg[1] = 0;
#ifdef VF_REAL
  { const char *td = getenv("VF_TMP"); snprintf(path, sizeof path, "%s/vf_c05_%d.sol", td ? td : "/tmp", (int)getpid()); }      /* VF_TMP: the check's scratch directory (removed at the end of the run) */
#else
  vf_flen = 0; vf_fpos = 0; vf_fopen_fails = 0;
#endif
  gotlen = 0; msg_calls = 0; n_objno = 0; n_code = 0; dual_n = primal_n = 77;
  u32 wrc = w_write_sol(path, msg, NOPTS, (char *)opts, nvars, ncons, 0, (char *)dummy, 0, (char *)dummy, objno, status);
  VF_ASSERT(wrc == 0, "writer raises no exception");
  u32 rc = w_read_sol(path, nvars, ncons);
  VF_OBS(rc);
  VF_ASSERT(rc == 0, "reader accepts the file the writer produced");
  VF_ASSERT(msg_calls == 1 && gotlen == 2 && got[0] == 'm' && got[1] == '\n', "message delivered");
  VF_ASSERT(n_objno == 1 && n_code == 1, "objno and solve code delivered once");
  VF_OBS(objno_v); VF_OBS(code_v);
  VF_ASSERT(objno_v + 1 == objno, "objective number read back (the file stores objno-1)");
  VF_ASSERT(code_v == status, "solve code read back");
  VF_ASSERT(dual_n == 0 || dual_n == 77, "no dual values offered"); VF_ASSERT(primal_n == 0 || primal_n == 77, "no primal values offered");
#ifdef VF_REAL
  unlink(path);
#endif
  VF_WITNESS();
}
