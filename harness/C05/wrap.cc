// C05 harness TU: the real SOL writer pieces (mp::internal::WriteMessage, include/mp/sol.h + src/sol.cc) feeding the real
// SOLReader2 (nl-writer2) through a file.  Reader wrappers and the checking handler are those of the C14 unit.
#include "../C14/wrap.cc"
#include "mp/sol.h"
#include "mp/posix.h"
// writes the solve message section of a .sol file exactly as WriteSolFile does (first statement of WriteSolFile)
W int w_write_message(const char* path, const char* message) {
  try { fmt::BufferedFile file(path, "wb"); mp::internal::WriteMessage(file, message); return 0; } catch (...) { return 3; }
}
// the real WriteSolFile<SolutionAdapter<PB>> on a minimal problem-builder stand-in (sizes + empty suffix sets)
#include "mp/solver-io.h"
#include "mp/suffix.h"
struct PB5 {
  typedef mp::SuffixSet SuffixSet;
  int nv = 0, nc = 0; mp::SuffixSet ss;
  int num_vars() const { return nv; } int num_algebraic_cons() const { return nc; }
  const SuffixSet& suffixes(mp::suf::Kind) const { return ss; }
};
W int w_write_sol(const char* path, const char* message, int nopts, const long* opts, int nvars, int ncons, int nprimal, const double* x, int ndual, const double* y, int objno, int status) {
  try {
    PB5 pb; pb.nv = nvars; pb.nc = ncons;
    mp::SolutionAdapter<PB5> sol(status, &pb, message, mp::ArrayRef<long>(opts, nopts), mp::ArrayRef<double>(x, nprimal), mp::ArrayRef<double>(y, ndual), objno);
    mp::WriteSolFile(path, sol);
    return 0;
  } catch (...) { return 3; }
}
