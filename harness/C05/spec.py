from vfeng import Unit, Harness
PROPERTY = 'C05'
EXT = ['vf_h_take', 'vf_h_dbl', 'vf_h_pair', 'vf_h_done', 'vf_h_msg', 'vf_h_options', 'vf_h_objno', 'vf_h_solve_code', 'vf_h_suffix',
       '_ZN2mp10SOLReader2I1HE6serrorEPKcz']
def units(tier):
    u = Unit('solrw', 'wrap.cc', 'harness.c', externs=EXT, extra_repo_cc=['nl-writer2/src/nl-utils.cc', 'src/sol.cc', 'src/format.cc', 'src/posix.cc'], ll2c_args=['--inline-mem', '1024'])
    u.cdefs = ['VF_FILEMAX=96']; u.tool_c = ['vf_file.c']; u.stub_undefined = True
    return [u]
def harnesses(tier):
    L = 4 if tier == 'quick' else 6
    A = ['file model: deterministic stdio over one byte array (tools/vf_file.c): fputc/fwrite append, fgets/getc/ungetc/fread read back; counterexamples are replayed through a real file with the real libc',
         'message: length and newline positions enumerated (they steer writer and reader control flow), every other byte symbolic over 1..255 except CR and backspace (the format reserves CR-LF and leading backspaces: outside)',
         'SOLReader2::serror (diagnostic text) is a stub']
    hs = []
    for n in range(0, L + 1):
        for mask in range(1 << n):
            if tier == 'quick' and n == L and bin(mask).count('1') > 2: continue
            h = Harness('h_message', 'solrw', unwind=40, timeout=300 if tier == 'quick' else 1200, mem_gb=16, defines=['MSGLEN=%d' % n, 'NLMASK=%d' % mask], tv_cases=0,
                        bounds='message of %d bytes with newlines at mask %s, other bytes symbolic' % (n, bin(mask)), assumptions=A, flags=['--object-bits', '10'], unwindset=['vf_c_fgets.0:520'],
                        claims='WriteMessage -> ReadSOLFile: the solve message comes back line by line (empty line <-> reserved single space), objno/solve code of the rest of the file still delivered')
            h.label = 'h_message[len%d,nl%s]' % (n, format(mask, '0%db' % max(n, 1))); hs.append(h)
    for nopts in ((0, 3, 4) if tier == 'quick' else (0, 3, 4, 5, 9)):
        D = 9 if tier == 'quick' else 99
        h = Harness('h_header', 'solrw', unwind=40, timeout=600 if tier == 'quick' else 2400, mem_gb=24, defines=['NOPTS=%d' % nopts, 'DIGMAX=%d' % D, 'MSGLEN=2', 'NLMASK=0'], tv_cases=0,
                    bounds='%d AMPL options, every option / size / objno / solve code symbolic in 0..%d, no solution vectors' % (nopts, D), assumptions=A[:1] + A[2:], flags=['--object-bits', '10'], unwindset=['vf_c_fgets.0:520'], known=['sol_zero_options'],
                    claims='real WriteSolFile (real {fmt} integer formatting) -> real ReadSOLFile: options block, counts line, objno and solve code come back unchanged')
        h.label = 'h_header[opts%d]' % nopts; hs.append(h)
    return hs
