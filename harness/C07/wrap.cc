// C07 harness TU: the real evaluators of the solution checker (constr_eval.h ComputeValue overloads, AlgebraicConstraint::ComputeViolation,
// Violation::Check) on a plain value vector.
#include <vector>
#include "mp/flat/constr_std.h"
#include "mp/flat/constr_eval.h"
#define W extern "C" __attribute__((noinline))
struct XV { const double* p; int n; double operator[](int i) const { return p[i]; } };
// kind: 0 min, 1 max, 2 abs, 3 if-then-else, 4 and, 5 or, 6 not, 7 count, 9 alldiff, 10 implication
W int w_value(int kind, int n, const double* x, int nargs, const int* args, double* out) {
  try {
    std::vector<double> xv(x, x + n); std::vector<int> a(args, args + nargs);
    switch (kind) {
      case 0: *out = mp::ComputeValue(mp::MinConstraint(a), xv); break;
      case 1: *out = mp::ComputeValue(mp::MaxConstraint(a), xv); break;
      case 2: *out = mp::ComputeValue(mp::AbsConstraint({a[0]}), xv); break;
      case 3: *out = mp::ComputeValue(mp::IfThenConstraint({a[0], a[1], a[2]}), xv); break;
      case 4: *out = mp::ComputeValue(mp::AndConstraint(a), xv); break;
      case 5: *out = mp::ComputeValue(mp::OrConstraint(a), xv); break;
      case 6: *out = mp::ComputeValue(mp::NotConstraint({a[0]}), xv); break;
      case 7: *out = mp::ComputeValue(mp::CountConstraint(a), xv); break;
      case 9: *out = mp::ComputeValue(mp::AllDiffConstraint(a), xv); break;
      case 10: *out = mp::ComputeValue(mp::ImplicationConstraint({a[0], a[1], a[2]}), xv); break;
      default: return 2;
    }
    return 0;
  } catch (...) { return 3; }
}
// reified comparison  r <=> (x0 cmp rhs): value recomputed by the checker
template <class CC> static double condv(double x0, double rhs) { std::vector<double> xv{x0}; CC c({ mp::LinTerms({1.0}, {0}), rhs }); return mp::ComputeValue(c, xv); }
W int w_cond_value(int cmp, double x0, double rhs, double* out) {
  try {
    switch (cmp) {
      case -2: *out = condv<mp::CondLinConLT>(x0, rhs); break; case -1: *out = condv<mp::CondLinConLE>(x0, rhs); break;
      case 0: *out = condv<mp::CondLinConEQ>(x0, rhs); break; case 1: *out = condv<mp::CondLinConGE>(x0, rhs); break;
      case 2: *out = condv<mp::CondLinConGT>(x0, rhs); break; default: return 2;
    }
    return 0;
  } catch (...) { return 3; }
}
// algebraic constraint  lb <= x0 <= ub  /  x0 cmp rhs : violation amount and reference value
W int w_alg_viol(int cmp, double x0, double lb, double ub, double* viol, double* ref) {
  try {
    std::vector<double> xv{x0}; mp::Violation v{0, 0};
    switch (cmp) {
      case 9: v = mp::LinConRange({ mp::LinTerms({1.0}, {0}), {lb, ub} }).ComputeViolation(xv); break;
      case -1: v = mp::LinConLE({ mp::LinTerms({1.0}, {0}), ub }).ComputeViolation(xv); break;
      case 0: v = mp::LinConEQ({ mp::LinTerms({1.0}, {0}), ub }).ComputeViolation(xv); break;
      case 1: v = mp::LinConGE({ mp::LinTerms({1.0}, {0}), lb }).ComputeViolation(xv); break;
      default: return 2;
    }
    *viol = v.viol_; *ref = v.valX_; return 0;
  } catch (...) { return 3; }
}
W int w_check(double viol, double ref, double epsabs, double epsrel, double* rel) { mp::Violation v{viol, ref}; auto r = v.Check(epsabs, epsrel); *rel = r.second; return r.first; }
