/* C07: the solution checker's evaluators report what the constraints mean. */
#include "vf_harness.h"
#ifndef NV
#define NV 3
#endif
#ifndef KIND
#define KIND 1
#endif
#ifndef CMP
#define CMP 1
#endif
#ifndef VF_REAL
void _ZN3fmt14BasicFormatterIcNS_12ArgFormatterIcEEE6formatENS_15BasicCStringRefIcEE(char *self, char *fmt) { }
#endif
static int finite_(double v) { return !VF_ISNAN(v) && v != vf_bits2d(0x7ff0000000000000ULL) && v != vf_bits2d(0xfff0000000000000ULL); }
static double x[NV]; static s32 args[NV];
/* round half away from zero, exactly: truncation and the fractional part are exact for |v| < 2^52 */
static double rnd(double v) { double t = (double)(s64)v; double fr = v - t; return fr >= 0.5 ? t + 1.0 : (fr <= -0.5 ? t - 1.0 : t); }
static int tr(double v) { return v >= 0.5; }       /* documented truth threshold of a logical value */
void h_value(void) {
  for (u32 i = 0; i < NV; i++) { x[i] = vf_nddouble(); VF_REQUIRE(finite_(x[i])); args[i] = (s32)i; }
  if (KIND == 9) for (u32 i = 0; i < NV; i++) VF_REQUIRE(x[i] > -1e15 && x[i] < 1e15);   /* alldiff: values of integer variables as a solver returns them (integral only up to a tolerance) */
  u32 nargs = (KIND == 2 || KIND == 6) ? 1 : (KIND == 3 || KIND == 10) ? 3 : NV;
  double out = 0; u32 rc = w_value(KIND, NV, (char *)x, nargs, (char *)args, (char *)&out);
  VF_ASSERT(rc == 0, "no exception");
  double f;
  switch (KIND) {
    case 0: f = x[0]; for (u32 i = 1; i < NV; i++) if (x[i] < f) f = x[i]; break;
    case 1: f = x[0]; for (u32 i = 1; i < NV; i++) if (x[i] > f) f = x[i]; break;
    case 2: f = x[0] < 0 ? -x[0] : x[0]; break;
    case 3: f = tr(x[0]) ? x[1] : x[2]; break;
    case 4: f = 1.0; for (u32 i = 0; i < NV; i++) if (!tr(x[i])) f = 0.0; break;
    case 5: f = 0.0; for (u32 i = 0; i < NV; i++) if (tr(x[i])) f = 1.0; break;
    case 6: f = tr(x[0]) ? 0.0 : 1.0; break;
    case 7: { u32 c = 0; for (u32 i = 0; i < NV; i++) if (tr(x[i])) c++; f = (double)c; break; }
    case 9: f = 1.0; for (u32 i = 0; i < NV; i++) for (u32 j = i + 1; j < NV; j++) if (rnd(x[i]) == rnd(x[j])) f = 0.0; break;
    default: f = (tr(x[0]) ? tr(x[1]) : tr(x[2])) ? 1.0 : 0.0; break;
  }
  VF_OBS(vf_d2bits(out));
  VF_ASSERT(out == f, "recomputed value of the functional constraint differs from its definition");
  VF_WITNESS();
}
void h_cond_value(void) {
  double x0 = vf_nddouble(), rhs = vf_nddouble(); VF_REQUIRE(finite_(x0) && finite_(rhs));
  double out = 7; u32 rc = w_cond_value((u32)CMP, x0, rhs, (char *)&out);
  VF_ASSERT(rc == 0, "no exception");
  int truth = CMP == -2 ? x0 < rhs : CMP == -1 ? x0 <= rhs : CMP == 0 ? x0 == rhs : CMP == 1 ? x0 >= rhs : x0 > rhs;
  VF_OBS(vf_d2bits(out));
  VF_ASSERT(out == (double)truth, "recomputed value of a reified comparison is not its truth value (strict comparisons are false at equality)");
  VF_WITNESS();
}
void h_alg_viol(void) {
  double x0 = vf_nddouble(), lb = vf_nddouble(), ub = vf_nddouble(), epsabs = vf_nddouble(), epsrel = vf_nddouble();
  VF_REQUIRE(finite_(x0) && !VF_ISNAN(lb) && !VF_ISNAN(ub) && lb <= ub);
  VF_REQUIRE(finite_(epsabs) && finite_(epsrel) && epsabs >= 0 && epsrel >= 0);
  if (CMP == -1) lb = vf_bits2d(0xfff0000000000000ULL); if (CMP == 1) ub = vf_bits2d(0x7ff0000000000000ULL); if (CMP == 0) lb = ub;
  double viol = 0, ref = 0, rel = 0;
  u32 rc = w_alg_viol((u32)CMP, x0, lb, ub, (char *)&viol, (char *)&ref);
  VF_ASSERT(rc == 0, "no exception");
  VF_OBS(vf_d2bits(viol)); VF_OBS(vf_d2bits(ref));
  int violated = x0 < lb || x0 > ub;
  VF_ASSERT((viol > 0.0) == violated, "positive violation amount iff the body lies outside [lb, ub]");
  if (x0 < lb) VF_ASSERT(viol == lb - x0 && ref == lb, "violation measured against the violated (lower) bound");
  if (x0 > ub) VF_ASSERT(viol == x0 - ub && ref == ub, "violation measured against the violated (upper) bound");
  VF_WITNESS();
}

/* Violation::Check on any (violation amount, reference value, tolerances) */
void h_check(void) {
  double viol = vf_nddouble(), ref = vf_nddouble(), epsabs = vf_nddouble(), epsrel = vf_nddouble(), rel = 0;
  VF_REQUIRE(finite_(viol) && finite_(ref) && finite_(epsabs) && finite_(epsrel) && epsabs >= 0 && epsrel >= 0);
  u32 flagged = w_check(viol, ref, epsabs, epsrel, (char *)&rel);
  VF_OBS(flagged);
  if (viol <= 0.0) VF_ASSERT(!flagged, "a satisfied constraint is reported as violated");
  if (flagged) VF_ASSERT(viol > epsabs, "reported although the absolute violation is within tolerance");
  if (viol > epsabs && ref == 0.0) VF_ASSERT(flagged, "violation beyond the absolute tolerance (reference value 0) not reported");
  if (!flagged && viol > epsabs) VF_ASSERT(ref != 0.0, "unreported violation must be excused by the relative tolerance");
  VF_WITNESS();
}
