from vfeng import Unit, Harness
PROPERTY = 'C07'
NAMES = {0: 'min', 1: 'max', 2: 'abs', 3: 'ifthen', 4: 'and', 5: 'or', 6: 'not', 7: 'count', 9: 'alldiff', 10: 'implication'}
RB = ['_ZSt18_Rb_tree_incrementPKSt18_Rb_tree_node_base', '_ZSt18_Rb_tree_incrementPSt18_Rb_tree_node_base', '_ZSt18_Rb_tree_decrementPSt18_Rb_tree_node_base', '_ZSt18_Rb_tree_decrementPKSt18_Rb_tree_node_base', '_ZSt29_Rb_tree_insert_and_rebalancebPSt18_Rb_tree_node_baseS0_RS_', '_ZNSt8_Rb_treeIiSt4pairIKidESt10_Select1stIS2_ESt4lessIiESaIS2_EE8_M_eraseEPSt13_Rb_tree_nodeIS2_E']
def units(tier):
    u = Unit('eval', 'wrap.cc', 'harness.c', externs=RB + ['_ZN3fmt14BasicFormatterIcNS_12ArgFormatterIcEEE6formatENS_15BasicCStringRefIcEE'], extra_repo_cc=['src/std_constr.cc'], ll2c_args=['--inline-mem', '1024'])
    u.stub_undefined = True; u.tool_c = ['vf_rbtree.c']; u.tv = False
    return [u]
def harnesses(tier):
    A = ['point: any finite doubles; logical values are read with the documented 0.5 threshold; alldiff compares the values rounded to the nearest integer (points within +-1e15)',
         'compare-only evaluators: the reference value is computed in the harness with comparisons only, so every double is decided bit-precisely; bodies of algebraic constraints have one term with coefficient 1 (no rounding in body evaluation)']
    hs = []
    for k in sorted(NAMES):
        for nv in ((3,) if tier == 'quick' else (2, 3, 4)):
            if k in (2, 6, 3, 10) and nv != 3: continue
            if k == 9: nv = 2 if tier == 'quick' else nv      # rounding of every argument is bit-blasted: two arguments in the quick tier
            h = Harness('h_value', 'eval', unwind=nv + 3, timeout=300 if tier == 'quick' else 1200, mem_gb=16, defines=['KIND=%d' % k, 'NV=%d' % nv], tv_cases=0,
                        bounds='%s over %d variables, every finite point' % (NAMES[k], nv), assumptions=A, flags=['--object-bits', '10'], backend='cadical' if k == 9 else 'sat',
                        claims='ComputeValue(%s) equals the mathematical definition at every point' % NAMES[k])
            h.label = 'h_value[%s,n%d]' % (NAMES[k], nv); hs.append(h)
    for c, nm in ((-2, 'lt'), (-1, 'le'), (0, 'eq'), (1, 'ge'), (2, 'gt')):
        h = Harness('h_cond_value', 'eval', unwind=6, timeout=300, mem_gb=16, defines=['CMP=%d' % c], tv_cases=0, bounds='r <=> (x %s rhs): every finite x and rhs' % nm, assumptions=A, flags=['--object-bits', '10'],
                    claims='recomputed value of a reified comparison = its truth value (exact test, strict comparisons false at equality)')
        h.label = 'h_cond_value[%s]' % nm; hs.append(h)
    for c, nm in ((9, 'range'), (-1, 'le'), (0, 'eq'), (1, 'ge')):
        h = Harness('h_alg_viol', 'eval', unwind=6, timeout=600, mem_gb=16, defines=['CMP=%d' % c], tv_cases=0, bounds='lb <= x <= ub (%s): every finite x, every bounds, every tolerance pair' % nm, assumptions=A, flags=['--object-bits', '10'], backend='cadical',
                    claims='violation amount > 0 iff violated, measured against the violated bound')
        h.label = 'h_alg_viol[%s]' % nm; hs.append(h)
    h = Harness('h_check', 'eval', unwind=6, timeout=900, mem_gb=16, tv_cases=0, backend='cadical', bounds='every finite violation amount, reference value and tolerance pair', assumptions=A[:1], flags=['--object-bits', '10'],
                claims='Violation::Check flags only positive violations beyond the absolute tolerance, and every such violation whose reference value is 0 (a non-zero reference may excuse it through the relative tolerance)')
    hs.append(h)
    return hs
