import os, re
from vfeng import Unit, Harness, REPO
PROPERTY = 'C03'
def pre(chk, d):
    # list of the writer-side opcode constants, parsed from the nl-opcodes.h generated for this run
    chk.repo_src('src/expr-info.cc')
    txt = open(os.path.join(chk.dir, 'gen_src', 'mp', 'nl-opcodes.h')).read()
    names = re.findall(r'^const Opcode (\w+)\s*=\s*\{', txt, re.M)
    open(os.path.join(d, 'opc_list.h'), 'w').write('#define VF_OPCODES(X) ' + ' '.join('X(%s)' % n for n in names) + '\n')
def units(tier):
    u = Unit('opc', 'wrap.cc', 'harness.c', extra_repo_cc=['src/expr-info.cc', 'src/nl-reader.cc', 'src/format.cc', 'src/os.cc', 'src/posix.cc', 'nl-writer2/src/nl-writer2.cc', 'nl-writer2/src/nl-utils.cc'],
             externs=['dtoa_r_dmgay', '_ZN2mp15BinaryFormatter3aprERNS_4FileEPKcz', '_ZN3fmt14BasicFormatterIcNS_12ArgFormatterIcEEE6formatENS_15BasicCStringRefIcEE', 'strtod', 'strtod_l', 'newlocale', 'freelocale', '__errno_location'])
    u.pre = pre; u.stub_undefined = True; u.tool_c = ['vf_file.c']
    u.real_link = [os.path.join(REPO, 'nl-writer2/src/dtoa.cc')]      # real build (replay) uses the real dtoa
    return [u]
def harnesses(tier):
    D = 3 if tier == 'quick' else 5
    return [
      Harness('h_opcodes', 'opc', unwind=102, timeout=900, tv_cases=3, bounds='every writer constant and every opcode 0..MAX_OPCODE (both tables visited exhaustively)',
              claims='each opcode constant a feeder can pass to the writer denotes, in the reader tables, an expression kind with the same name whose nl_opcode is that code; every opcode the reader knows has a writer constant; nl_opcode(GetOpCodeInfo(o).kind) = o',
              assumptions=['tables regenerated from src/gen-expr-info.cc of the current tree (as the build does)']),
      Harness('h_binary_const', 'opc', unwind=12, timeout=600, tv_cases=0, backend='cadical', bounds='any double (all 2^64 bit patterns)',
              claims='BinaryFormatter::nput chooses s/l/n packing such that NLReader::ReadConstant over BinaryReader returns the identical value (bit-identical except the sign of zero); short/long tags only for integral values in range',
              assumptions=['BinaryFormatter::apr (variadic binary printf) is replaced by a recorder that lays out tag byte + native-endian payload exactly as apr does for the %h / %l / %g directives (trusted, 15 lines)', 'NaN payloads are outside (AMPL never writes NaN)']),
      Harness('h_gfmt', 'opc', unwind=14, timeout=900, tv_cases=0, backend='cadical', defines=['MAXD=%d' % D], bounds='<= %d significant digits (all digit strings), decimal exponent -300..300, either sign, any precision argument' % D,
              claims='g_fmt lays the digits out as a decimal literal ([-]d[.ddd]e(+|-)XX or plain) whose value is exactly digits * 10^(decpt-n): what the NL reader parses back', known=[],
              assumptions=['dtoa_r_dmgay (David Gay dtoa, 6000 lines of bignum code) is the environment: any digit string without leading/trailing zero, any decpt, any sign; in replay on the real build the real dtoa is used on strtod of the literal']),
    ]
