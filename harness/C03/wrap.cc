// C03 harness TU (1): opcode tables of the two sides -- nl-opcodes.h (what a feeder passes to the writer) and the reader's tables in
// expr-info.cc (GetOpCodeInfo / nl_opcode / str), both regenerated from src/gen-expr-info.cc for this run.
// (2): binary numeric packing -- the real BinaryFormatter::nput against the real NLReader<BinaryReader>::ReadConstant.
#include "mp/common.h"
#include "mp/nl-reader.h"
#include "mp/nl-opcodes.h"
#include "mp/nl-writer2-misc.h"
#include "mp/nl-utils.h"
#include "opc_list.h"        // generated per run from the freshly generated nl-opcodes.h: #define VF_OPCODES(X) X(ADD) X(SUB) ...
#define W extern "C" __attribute__((noinline))
namespace { struct WO { int code; const char* name; };
#define X(n) { mp::nl::n.code, mp::nl::n.name },
const WO WR[] = { VF_OPCODES(X) };
#undef X
}
W int w_nwriter() { return (int)(sizeof(WR) / sizeof(WR[0])); }
W int w_wcode(int i) { return WR[i].code; }
W const char* w_wname(int i) { return WR[i].name; }
W int w_max_opcode() { return mp::internal::MAX_OPCODE; }
W int w_rkind(int opcode) { return mp::internal::GetOpCodeInfo(opcode).kind; }
W int w_rfirst(int opcode) { return mp::internal::GetOpCodeInfo(opcode).first_kind; }
W int w_ropcode(int kind) { return mp::expr::nl_opcode((mp::expr::Kind)kind); }
W const char* w_rstr(int kind) { return mp::expr::str((mp::expr::Kind)kind); }
W int w_last_kind() { return mp::expr::LAST_EXPR; }
// ---- binary packing
#ifndef VF_REAL_BUILD
W void w_nput(double r) { mp::NLUtils u; mp::BinaryFormatter f(u, false, 0); mp::File fl; f.nput(fl, r); }
#else
// real build (replay): the real variadic apr writes to a real file, whose bytes are handed to the harness
#include <unistd.h>
extern "C" void vf_real_rec(const unsigned char* bytes, unsigned long n);
W void w_nput(double r) {
  mp::NLUtils u; mp::BinaryFormatter f(u, false, 0); mp::File fl; char nm[] = "/tmp/vfc03XXXXXX"; int fd = mkstemp(nm); close(fd);
  fl.Open(nm, "wb"); f.nput(fl, r); fl.Close();
  unsigned char b[32]; FILE* g = std::fopen(nm, "rb"); unsigned long n = std::fread(b, 1, sizeof b, g); std::fclose(g); unlink(nm); vf_real_rec(b, n);
}
#endif
struct NullH : mp::NullNLHandler<int> {};
typedef mp::internal::BinaryReader<mp::internal::IdentityConverter> BR;
typedef mp::internal::NLReader<BR, NullH> NLR;
template<class Tag, typename Tag::type M> struct Rob { friend typename Tag::type get(Tag) { return M; } };
struct RC { typedef double (NLR::*type)(char); friend type get(RC); };
template struct Rob<RC, static_cast<double (NLR::*)(char)>(&NLR::ReadConstant)>;
// reads the payload that follows the constant's code byte; 0 = ok, 1 = BinaryReadError/ReadError
W int w_read_constant(const char* buf, unsigned long len, int code, double* out) {
  try {
    mp::internal::ReaderBase* dummy = 0; (void)dummy;
    mp::internal::TextReader<> tr(mp::NLStringRef(buf, len), "(input)");
    BR br(tr); mp::NLHeader h = mp::NLHeader(); NullH nh; NLR r(br, h, nh, 0);
    *out = (r.*get(RC()))((char)code);
    return 0;
  } catch (const mp::Error&) { return 1; } catch (...) { return 3; }
}
// ---- text numbers: digit layout of DAVID_GAY_GFMT::g_fmt (local to nl-writer2.cc) over the digits dtoa delivers
namespace DAVID_GAY_GFMT { int g_fmt(char* b, double x, int prec); }
W int w_gfmt(char* b, double x, int prec) { return DAVID_GAY_GFMT::g_fmt(b, x, prec); }
