/* C03: writer and reader agree on the opcode table and on the binary encoding of numeric constants. */
#include "vf_harness.h"
#include <stdarg.h>
static int streq(const char *a, const char *b) { for (u32 i = 0; i < 24; i++) { if (a[i] != b[i]) return 0; if (!a[i]) return 1; } return 0; }
static void check_writer_entry(u32 i, u32 maxop, u32 lastk) {
  u32 code = w_wcode(i); VF_OBS(code);
  VF_ASSERT(code <= maxop, "writer opcode within the reader's table");
  if (code <= maxop) {
    u32 k = w_rkind(code); VF_OBS(k);
    VF_ASSERT(k != 0 && k <= lastk, "reader knows every opcode the writer can emit");
    if (k != 0 && k <= lastk) {
      VF_ASSERT(w_ropcode(k) == code, "reader kind maps back to the writer's code");
      VF_ASSERT(streq(w_rstr(k), w_wname(i)), "same operator name on both sides");
      u32 fk = w_rfirst(code); VF_ASSERT(fk != 0 && fk <= k, "kind belongs to the class whose first member is first_kind");
    }
  }
}
static void check_reader_opcode(u32 o, u32 nw, u32 lastk) {
  u32 k2 = w_rkind(o); int leaf = 0;
  if (k2 != 0 && k2 <= lastk) { const char *nm = w_rstr(k2); leaf = streq(nm, "number") || streq(nm, "variable") || streq(nm, "string") || streq(nm, "function call"); }
  if (k2 != 0 && !leaf) {      /* numbers, variables, strings, function calls have their own NL syntax (n/v/h/f lines), not an operator line */
    VF_ASSERT(k2 <= lastk && w_ropcode(k2) == o, "nl_opcode(GetOpCodeInfo(o).kind) == o");
    int found = 0; for (u32 j = 0; j < 100; j++) { if (j >= nw) break; if ((u32)w_wcode(j) == o) found = 1; }
    VF_ASSERT(found, "every opcode the reader accepts has a writer constant");
  }
}
/* both tables are finite: every entry is visited (the table index is concrete in each visit; a symbolic index into the generated table
 * object, a struct of 200+ mixed members, makes CBMC lose the string pointers) */
void h_opcodes(void) {
  u32 nw = w_nwriter(), maxop = w_max_opcode(), lastk = w_last_kind();
  VF_ASSERT(nw >= 60 && nw <= 100 && maxop < 100, "tables populated");
  for (u32 i = 0; i < 100; i++) { if (i >= nw) break; check_writer_entry(i, maxop, lastk); }
  for (u32 o = 0; o < 100; o++) { if (o > maxop) break; check_reader_opcode(o, nw, lastk); }
  VF_WITNESS();
}
/* recorder standing for BinaryFormatter::apr(File&, fmt, ...): tag byte, then the payload of the single directive nput uses */
static u8 rec[16]; static u32 reclen; static u8 tag; static int bad_fmt;
#ifndef VF_REAL
u32 _ZN2mp15BinaryFormatter3aprERNS_4FileEPKcz(char *self, char *file, char *fmt, ...) {
  va_list ap; va_start(ap, fmt);
  tag = (u8)fmt[0]; reclen = 0; bad_fmt = 0;
  if (fmt[1] != '%') bad_fmt = 1;
  else if (fmt[2] == 'h') { s16 v = (s16)va_arg(ap, int); rec[0] = (u8)v; rec[1] = (u8)((u16)v >> 8); reclen = 2; }
  else if (fmt[2] == 'l') { s32 v = (s32)va_arg(ap, long); for (int b = 0; b < 4; b++) rec[b] = (u8)((u32)v >> (8 * b)); reclen = 4; }
  else if (fmt[2] == 'g') { double d = va_arg(ap, double); u64 bits = vf_d2bits(d); for (int b = 0; b < 8; b++) rec[b] = (u8)(bits >> (8 * b)); reclen = 8; }
  else bad_fmt = 1;
  va_end(ap); return 1;
}
void _ZN3fmt14BasicFormatterIcNS_12ArgFormatterIcEEE6formatENS_15BasicCStringRefIcEE(char *self, char *fmt) { }
#endif
#ifdef VF_REAL
void vf_real_rec(const u8 *b, u64 n) { bad_fmt = n < 1 || n > 9; tag = b[0]; reclen = (u32)(n - 1); for (u32 i = 0; i < 8; i++) rec[i] = i < reclen ? b[1 + i] : 0; }
#endif
void h_binary_const(void) {
  double r = vf_nddouble(); VF_REQUIRE(!VF_ISNAN(r));
  w_nput(r);
  VF_ASSERT(!bad_fmt, "nput uses one of the s%h / l%l / n%g forms");
  VF_ASSERT(tag == 's' || tag == 'l' || tag == 'n', "constant tag");
  char *buf = vf_malloc(9); for (u32 b = 0; b < 8; b++) buf[b] = b < reclen ? (char)rec[b] : 0; buf[reclen] = 0;
  double out = 0; u32 rc = w_read_constant(buf, reclen, tag, (char *)&out);
  VF_OBS(tag); VF_OBS(rc); VF_OBS(vf_d2bits(out));
  VF_ASSERT(rc == 0, "reader accepts what the writer packed");
  VF_ASSERT(out == r, "constant read back with the same value");
  if (r != 0) VF_ASSERT(vf_d2bits(out) == vf_d2bits(r), "bit-identical (apart from the sign of zero)");
  if (tag == 's') VF_ASSERT(r >= -32768.0 && r <= 32767.0, "short packing only in short range");
  if (tag == 'l') VF_ASSERT(r >= -2147483648.0 && r <= 2147483647.0, "long packing only in 32-bit range");
  VF_WITNESS();
}

/* ---- g_fmt: the text a double is written as, given the decimal digits dtoa produced (dtoa itself is the environment) ---- */
#ifndef MAXD
#define MAXD 3
#endif
static u8 dig[MAXD + 1]; static u32 nd; static s32 dexp; static u32 dsign; static char *dbuf_seen;
#ifndef VF_REAL
/* dtoa_r_dmgay contract: returns a NUL-terminated string of nd >= 1 decimal digits without trailing zeros (first digit non-zero) in buf,
 * *decpt = position of the decimal point (value = 0.d1d2.. * 10^decpt), *sign, *rve = end of the string */
char *vf_c_dtoa_r_dmgay(double x, u32 mode, u32 ndigits, char *decpt, char *sign, char *rve, char *buf, u64 blen) {
  for (u32 i = 0; i < MAXD; i++) { if (i >= nd) break; buf[i] = (char)dig[i]; }
  buf[nd] = 0; *(s32 *)decpt = dexp; *(u32 *)sign = dsign; *(char **)rve = buf + nd; dbuf_seen = buf; return buf;
}
#else
#include <stdio.h>
#include <stdlib.h>
#endif
void h_gfmt(void) {
  nd = (u32)vf_ndrange(1, MAXD); dsign = vf_ndbool(); dexp = (s32)vf_nd32(); VF_REQUIRE(dexp >= -300 && dexp <= 300);
  u64 D = 0;
  for (u32 i = 0; i < MAXD; i++) { if (i >= nd) break; dig[i] = (u8)vf_ndrange('0', '9'); D = D * 10 + (dig[i] - '0'); }
  VF_REQUIRE(dig[0] != '0' && dig[nd - 1] != '0');
  u32 prec = (u32)vf_ndrange(0, 17);
  char *out = vf_malloc(40);
  double x = 1.0;
#ifdef VF_REAL
  { char tmp[64]; int n = 0; if (dsign) tmp[n++] = '-'; tmp[n++] = '0'; tmp[n++] = '.'; for (u32 i = 0; i < nd; i++) tmp[n++] = (char)dig[i]; snprintf(tmp + n, 16, "e%d", dexp); x = strtod(tmp, 0); prec = 0; }
#endif
  u32 len = w_gfmt(out, x, prec);
  VF_ASSERT(len >= 1 && len < 40, "text fits the formatter's buffer");
  if (!(len >= 1 && len < 40)) return;
  VF_ASSERT(out[len] == 0, "terminated");
  /* reference reading of a decimal literal: [-] digits [. digits] [e (+|-) digits] */
  u32 p = 0; int neg = 0; if (out[p] == '-') { neg = 1; p++; }
  u64 M = 0; u32 F = 0, nmd = 0; int seen_dot = 0, ok = 1;
  for (u32 i = 0; i < 40; i++) { if (p >= len) break; char c = out[p];
    if (c >= '0' && c <= '9') { M = M * 10 + (u64)(c - '0'); nmd++; if (seen_dot) F++; p++; }
    else if (c == '.' && !seen_dot) { seen_dot = 1; p++; } else break; }
  s32 E = 0; 
  if (p < len) { if (out[p] != 'e') ok = 0; else { p++; int eneg = 0; if (p < len && (out[p] == '+' || out[p] == '-')) { eneg = out[p] == '-'; p++; } else ok = 0;
      u32 ned = 0; for (u32 i = 0; i < 6; i++) { if (p >= len) break; char c = out[p]; if (c >= '0' && c <= '9') { E = E * 10 + (c - '0'); ned++; p++; } else { ok = 0; break; } }
      if (ned < 1) ok = 0; if (eneg) E = -E; } }
  for (u32 i = 0; i < len && i < 40; i++) VF_OBS(out[i]);
  VF_ASSERT(ok && p == len && nmd >= 1 && nmd <= 12, "output is a decimal literal the NL reader's number syntax accepts: [-]digits[.digits][e(+|-)digits]");
  if (!(ok && p == len && nmd >= 1 && nmd <= 12)) return;
  VF_ASSERT(neg == (int)dsign, "sign");
  s32 X = E - (s32)F; for (u32 i = 0; i < 12; i++) { if (M == 0 || M % 10 != 0) break; M /= 10; X++; }
  VF_ASSERT(M == D && X == dexp - (s32)nd, "literal denotes exactly digits * 10^(decpt - ndigits)");
  VF_WITNESS();
}
