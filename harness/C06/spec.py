from vfeng import Unit, Harness
PROPERTY = 'C06'
NAMES = {0: 'min', 1: 'max', 2: 'abs', 3: 'ifthen', 4: 'and', 5: 'or', 6: 'not', 7: 'count', 9: 'alldiff', 10: 'implication'}
def units(tier):
    u = Unit('prepro', 'wrap.cc', 'harness.c', externs=['_ZSt18_Rb_tree_incrementPKSt18_Rb_tree_node_base', '_ZSt18_Rb_tree_incrementPSt18_Rb_tree_node_base', '_ZSt18_Rb_tree_decrementPSt18_Rb_tree_node_base', '_ZSt18_Rb_tree_decrementPKSt18_Rb_tree_node_base', '_ZSt29_Rb_tree_insert_and_rebalancebPSt18_Rb_tree_node_baseS0_RS_', '_ZNSt8_Rb_treeIiSt4pairIKidESt10_Select1stIS2_ESt4lessIiESaIS2_EE8_M_eraseEPSt13_Rb_tree_nodeIS2_E', 'vf_mc_newvar', 'vf_mc_narrow', '_ZN3fmt14BasicFormatterIcNS_12ArgFormatterIcEEE6formatENS_15BasicCStringRefIcEE'], extra_repo_cc=['src/std_constr.cc'],
             ll2c_args=['--inline-mem', '1024'])
    u.stub_undefined = True; u.tool_c = ['vf_rbtree.c']; u.tv = False
    u.real_cxxflags = ['-fno-sanitize=vptr']      # the FlatModel object image has no vptr: UBSan's dynamic-type check does not apply to it
    return [u]
def harnesses(tier):
    A = ['variable domains: any doubles lb <= ub (infinite bounds allowed, no NaN), integrality flags symbolic; the point x is any finite value inside the domains (integer for integer variables, |x| < 4e18); arguments of logical constraints are binary variables',
         'the converter is a stand-in that mixes in the REAL ConstraintPreprocessors, BoundComputations and FlatModel accessors on an object image holding only the three variable vectors (lb_array, ub_min_array, lb_max_array, ub_array, common_type, is_binary_var); AssignResult2Args / MakeComplementVar are recorders',
         'compare-only kinds: the function value is computed in the harness with comparisons only, so all doubles are decided bit-precisely']
    hs = []
    for k in sorted(NAMES):
        for nv in ((3,) if tier == 'quick' else (2, 3, 4)):
            if k in (2, 6, 3, 10) and nv != 3: continue
            h = Harness('h_prepro', 'prepro', unwind=nv + 3, timeout=300 if tier == 'quick' else 2400, mem_gb=24, defines=['KIND=%d' % k, 'NV=%d' % nv], tv_cases=0,
                        bounds='%s over %d variables, all bounds / flags / points symbolic (every double)' % (NAMES[k], nv), assumptions=A, flags=['--object-bits', '10'],
                        claims='PreprocessConstraint(%s): inferred [lb, ub] contains the function value at every point of the argument box; result declared integer only if the value is integral; a result identified with a variable equals it' % NAMES[k])
            h.label = 'h_prepro[%s,n%d]' % (NAMES[k], nv); hs.append(h)
    for cmp_, nm in ((-2, 'lt'), (-1, 'le'), (0, 'eq'), (1, 'ge'), (2, 'gt')):
        h = Harness('h_cond', 'prepro', unwind=6, timeout=300 if tier == 'quick' else 1200, mem_gb=24, defines=['CMP=%d' % cmp_, 'NV=3', 'KIND=1'], tv_cases=0,
                    bounds='r <=> (x %s rhs), one variable with coefficient 1: bounds, integrality flag, point and rhs symbolic (every double, |.| < 4e18)' % nm, assumptions=A, flags=['--object-bits', '10'],
                    claims='conditional comparison preprocessing: rounding of rhs for integer bodies, fixing of the result, reuse of a binary variable or its complement never change the truth value at an attainable point')
        h.label = 'h_cond[%s]' % nm; hs.append(h)
    return hs
