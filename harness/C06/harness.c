/* C06: bounds and integrality inferred for the result of a functional constraint never cut off an attainable value.
 * Compare-only kinds (min, max, abs, if-then-else, and, or, not, count, alldiff, implication): decided bit-precisely over all doubles. */
#include "vf_harness.h"
#ifndef NV
#define NV 3
#endif
#ifndef KIND
#define KIND 1
#endif
struct out { double lb, ub; s32 type, result_var; };
static double lb[NV + 2], ub[NV + 2], x[NV + 2]; static s32 ty[NV + 2], args[NV];
static u32 nnew; static double new_lb[4], new_ub[4]; static s32 new_ty[4];
u32 vf_mc_newvar(double l, double u, u32 t) { if (nnew < 4) { new_lb[nnew] = l; new_ub[nnew] = u; new_ty[nnew] = (s32)t; } nnew++; return NV + nnew - 1; }
static int narrowed;
void vf_mc_narrow(u32 v, double l, double u) { narrowed++; }
#ifndef VF_REAL
void _ZN3fmt14BasicFormatterIcNS_12ArgFormatterIcEEE6formatENS_15BasicCStringRefIcEE(char *self, char *fmt) { }
#endif
static int isint(double v) { return v == (double)(s64)v; }         /* |v| < 2^62 in all uses */
static int finite_(double v) { return !VF_ISNAN(v) && v != vf_bits2d(0x7ff0000000000000ULL) && v != vf_bits2d(0xfff0000000000000ULL); }
/* arbitrary variable domains (lb <= ub, no NaN, +-inf allowed as bounds) and a point inside them; integer variables take integer values */
static void mkvars(int logical) {
  for (u32 i = 0; i < NV; i++) {
    lb[i] = vf_nddouble(); ub[i] = vf_nddouble(); ty[i] = (s32)vf_ndbool(); x[i] = vf_nddouble();
    VF_REQUIRE(!VF_ISNAN(lb[i]) && !VF_ISNAN(ub[i]) && lb[i] <= ub[i]);
    VF_REQUIRE(finite_(x[i]) && x[i] >= lb[i] && x[i] <= ub[i]);
    VF_REQUIRE(x[i] > -4e18 && x[i] < 4e18);
    if (ty[i]) VF_REQUIRE(isint(x[i]));
    if (logical) { VF_REQUIRE(ty[i] && lb[i] >= 0.0 && ub[i] <= 1.0); }      /* arguments of logical constraints are binary variables */
    args[i] = (s32)i;
  }
}
static double fmin2(double a, double b) { return b < a ? b : a; }
static double fmax2(double a, double b) { return a < b ? b : a; }
void h_prepro(void) {
  int logical = (KIND >= 4 && KIND <= 7) || KIND == 10;
  mkvars(logical);
  u32 nargs = (KIND == 2 || KIND == 6) ? 1 : (KIND == 3 || KIND == 10) ? 3 : NV;
  if (KIND == 3) VF_REQUIRE(ty[0] && lb[0] >= 0.0 && ub[0] <= 1.0);      /* the condition of if-then-else is a binary variable */
  struct out o; nnew = 0; narrowed = 0;
  u32 rc = w_prepro(KIND, NV, (char *)lb, (char *)ub, (char *)ty, nargs, (char *)args, (char *)&o);
  VF_ASSERT(rc == 0, "no exception");
  /* the mathematical value of the function at the point */
  double f; int f_is_int = 1;
  switch (KIND) {
    case 0: f = x[0]; for (u32 i = 1; i < NV; i++) f = fmin2(f, x[i]); break;
    case 1: f = x[0]; for (u32 i = 1; i < NV; i++) f = fmax2(f, x[i]); break;
    case 2: f = x[0] < 0 ? -x[0] : x[0]; break;
    case 3: f = x[0] != 0.0 ? x[1] : x[2]; break;
    case 4: f = 1.0; for (u32 i = 0; i < NV; i++) if (x[i] == 0.0) f = 0.0; break;
    case 5: f = 0.0; for (u32 i = 0; i < NV; i++) if (x[i] != 0.0) f = 1.0; break;
    case 6: f = x[0] != 0.0 ? 0.0 : 1.0; break;
    case 7: f = 0.0; for (u32 i = 0; i < NV; i++) if (x[i] != 0.0) f = f + 1.0; break;
    case 9: f = 1.0; for (u32 i = 0; i < NV; i++) for (u32 j = i + 1; j < NV; j++) if (x[i] == x[j]) f = 0.0; break;
    default: f = (x[0] != 0.0) ? (x[1] != 0.0 ? 1.0 : 0.0) : (x[2] != 0.0 ? 1.0 : 0.0); break;
  }
  VF_OBS(vf_d2bits(o.lb)); VF_OBS(vf_d2bits(o.ub)); VF_OBS(o.type); VF_OBS(o.result_var);
  VF_ASSERT(!VF_ISNAN(o.lb) && !VF_ISNAN(o.ub), "no NaN bound inferred");
  if (o.result_var >= 0) {
    /* the result was identified with an existing or a newly defined variable */
    if ((u32)o.result_var < NV) VF_ASSERT(f == x[o.result_var], "result identified with a variable whose value differs from the function value");
    else if (KIND == 2) { u32 k = (u32)o.result_var - NV; VF_ASSERT(k < nnew && x[0] <= 0.0, "abs: result defined as -x only when x <= 0 on its whole domain"); }
  } else {
    VF_ASSERT(o.lb <= f && f <= o.ub, "inferred result bounds cut off an attainable function value");
    if (o.type) VF_ASSERT(isint(f), "result declared integer although the function takes a fractional value");
  }
  VF_WITNESS();
}

/* conditional comparison  r <=> (x cmp rhs)  over one variable with coefficient 1 (compare-only): the preprocessor may round rhs for an
 * integer body, fix the result, or identify it with a binary variable / its complement */
#ifndef CMP
#define CMP 1
#endif
struct outc { double lb, ub; s32 type, result_var; double new_rhs, new_coef; };
static int cmp_holds(double b, double rhs) { return CMP == -2 ? b < rhs : CMP == -1 ? b <= rhs : CMP == 0 ? b == rhs : CMP == 1 ? b >= rhs : b > rhs; }
void h_cond(void) {
  double l = vf_nddouble(), u = vf_nddouble(), xv = vf_nddouble(), rhs = vf_nddouble(); s32 t = (s32)vf_ndbool();
  VF_REQUIRE(!VF_ISNAN(l) && !VF_ISNAN(u) && l <= u && finite_(xv) && xv >= l && xv <= u && xv > -4e18 && xv < 4e18);
  VF_REQUIRE(finite_(rhs) && rhs > -4e18 && rhs < 4e18);
  if (t) VF_REQUIRE(isint(xv));
  struct outc o; nnew = 0;
  u32 rc = w_cond((u32)CMP, l, u, (u32)t, 1.0, rhs, (char *)&o);
  VF_ASSERT(rc == 0, "no exception");
  int truth = cmp_holds(xv, rhs);
  VF_OBS(vf_d2bits(o.lb)); VF_OBS(vf_d2bits(o.ub)); VF_OBS(o.result_var); VF_OBS(vf_d2bits(o.new_rhs));
  if (o.result_var >= 0) {
    if (o.result_var == 0) VF_ASSERT(t && l == 0.0 && u == 1.0 && (double)truth == xv, "result identified with the variable although the comparison differs from its value");
    else { u32 k = (u32)o.result_var - NV; VF_ASSERT(k < nnew, "result is a variable the preprocessor created");
      if (k < nnew && CMP == 0) VF_ASSERT((double)truth == 1.0 - xv && new_lb[k] == 1.0 - u && new_ub[k] == 1.0 - l, "result identified with the complement of a binary variable although the comparison differs from 1 - x"); }
  } else {
    VF_ASSERT(o.lb <= (double)truth && (double)truth <= o.ub, "result of the comparison fixed to a value it does not take at this point");
    VF_ASSERT(o.new_coef == 1.0, "coefficient unchanged");
    VF_ASSERT(cmp_holds(xv, o.new_rhs) == truth, "rounding of the right-hand side changes the truth value of the comparison at an attainable point");
  }
  VF_WITNESS();
}
