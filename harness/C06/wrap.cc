// C06 harness TU: the real result-bound / result-type preprocessors (ConstraintPreprocessors<Impl>, constr_prepro.h), the real bound
// computations (BoundComputations<Impl>, expr_bounds.h) and the real FlatModel variable accessors (lb_array, ub_min_array, common_type, ...)
// mixed into a minimal converter stand-in, exactly as FlatConverter mixes them in (the forwarding members below are FlatConverter's).
#include <vector>
#include "mp/flat/converter_model.h"
#include "mp/flat/constr_prepro.h"
#include "mp/flat/expr_bounds.h"
#include "mp/flat/preprocess.h"
extern "C" { int vf_mc_newvar(double lb, double ub, int type); void vf_mc_narrow(int var, double lb, double ub); }
// The real FlatModel<> accessors (lb, ub, var_type, lb_array, ..., common_type, is_binary_var) run on an object image of which only the
// three variable vectors are constructed (its constructor would drag in constraint keepers, model info and the graph exporter).
template<class Tag, typename Tag::type M> struct Rob { friend typename Tag::type get(Tag) { return M; } };
typedef mp::FlatModel<> FM;
struct TLb { typedef std::vector<double> FM::*type; friend type get(TLb); }; template struct Rob<TLb, &FM::var_lb_>;
struct TUb { typedef std::vector<double> FM::*type; friend type get(TUb); }; template struct Rob<TUb, &FM::var_ub_>;
struct TTy { typedef std::vector<mp::var::Type> FM::*type; friend type get(TTy); }; template struct Rob<TTy, &FM::var_type_>;
struct Impl : mp::ConstraintPreprocessors<Impl>, mp::BoundComputations<Impl> {
  alignas(16) char storage[sizeof(FM)];
  FM& model = *reinterpret_cast<FM*>(storage);
  Impl() { new (&(model.*get(TLb()))) std::vector<double>(); new (&(model.*get(TUb()))) std::vector<double>(); new (&(model.*get(TTy()))) std::vector<mp::var::Type>(); }
  FM& GetModel() { return model; }
  const FM& GetModel() const { return model; }
  double lb(int v) const { return model.lb(v); } double ub(int v) const { return model.ub(v); }
  mp::var::Type var_type(int v) const { return model.var_type(v); }
  bool is_fixed(int v) const { return model.is_fixed(v); } double fixed_value(int v) const { return model.fixed_value(v); }
  bool is_binary_var(int v) const { return model.is_binary_var(v); }
  template <class N> static bool is_integer_value(N n) { return mp::FlatModel<>::is_integer_value(n); }
  static constexpr double Infty() { return INFINITY; } static constexpr double MinusInfty() { return -INFINITY; }
  static constexpr double PracticallyInf() { return 1e20; } static constexpr double PracticallyMinusInf() { return -1e20; }
  static constexpr double Pi() { return 3.14159265358979; }
  int prepro_eq_bounds = 1, prepro_eq_bin = 1;
  bool IfPreproEqResBounds() const { return prepro_eq_bounds; } bool IfPreproEqBinVar() const { return prepro_eq_bin; } bool IfPreproNestedAndsOrs() const { return false; }
  void AddWarning(std::string, std::string) {}
  void NarrowVarBounds(int v, double l, double u) { vf_mc_narrow(v, l, u); }
  int MakeComplementVar(int v) { return vf_mc_newvar(1.0 - model.ub(v), 1.0 - model.lb(v), 1) ; }
  struct VarOrConst { int v; int get_var() const { return v; } };
  template <class FC> VarOrConst AssignResult2Args(FC&&) { return VarOrConst{vf_mc_newvar(-INFINITY, INFINITY, 0)}; }
  template <class FC> int AssignResultVar2Args(FC&&) { return vf_mc_newvar(0.0, 1.0, 1); }
  template <class Con> const Con* GetInitExpressionOfType(int) { return nullptr; }
  void DecrementVarUsage(int) {}
};
#define W extern "C" __attribute__((noinline))
struct Out { double lb, ub; int type, result_var; };
static void fill(Impl& I, int n, const double* lb, const double* ub, const int* ty) {
  for (int i = 0; i < n; ++i) { (I.model.*get(TLb())).push_back(lb[i]); (I.model.*get(TUb())).push_back(ub[i]); (I.model.*get(TTy())).push_back(ty[i] ? mp::var::INTEGER : mp::var::CONTINUOUS); }
}
static void out(const mp::PreprocessInfoStd& p, Out* o) { o->lb = p.lb(); o->ub = p.ub(); o->type = p.type() == mp::var::INTEGER; o->result_var = p.is_result_var_known() ? p.get_result_var() : -1; }
// kind: 0 min, 1 max, 2 abs, 3 if-then-else, 4 and, 5 or, 6 not, 7 count, 8 numberof-const, 9 alldiff, 10 implication
W int w_prepro(int kind, int n, const double* lb, const double* ub, const int* ty, int nargs, const int* args, Out* o) {
  try {
    Impl I; fill(I, n, lb, ub, ty); mp::PreprocessInfoStd p;
    std::vector<int> a(args, args + nargs);
    switch (kind) {
      case 0: { mp::MinConstraint c(a); I.PreprocessConstraint(c, p); break; }
      case 1: { mp::MaxConstraint c(a); I.PreprocessConstraint(c, p); break; }
      case 2: { mp::AbsConstraint c({a[0]}); I.PreprocessConstraint(c, p); break; }
      case 3: { mp::IfThenConstraint c({a[0], a[1], a[2]}); I.PreprocessConstraint(c, p); break; }
      case 4: { mp::AndConstraint c(a); I.PreprocessConstraint(c, p); break; }
      case 5: { mp::OrConstraint c(a); I.PreprocessConstraint(c, p); break; }
      case 6: { mp::NotConstraint c({a[0]}); I.PreprocessConstraint(c, p); break; }
      case 7: { mp::CountConstraint c(a); I.PreprocessConstraint(c, p); break; }
      case 9: { mp::AllDiffConstraint c(a); I.PreprocessConstraint(c, p); break; }
      case 10: { mp::ImplicationConstraint c({a[0], a[1], a[2]}); I.PreprocessConstraint(c, p); break; }
      default: return 2;
    }
    out(p, o); return 0;
  } catch (...) { return 3; }
}

// conditional comparisons  r <=> (coef*x cmp rhs)  with one linear term; kind: -2 <, -1 <=, 0 ==, 1 >=, 2 >
struct OutC { double lb, ub; int type, result_var; double new_rhs; double new_coef; };
template <class CC> static int cond(Impl& I, int var, double coef, double rhs, OutC* o) {
  mp::PreprocessInfoStd p;
  CC c({ mp::LinTerms({coef}, {var}), rhs });
  I.PreprocessConstraint(c, p);
  o->lb = p.lb(); o->ub = p.ub(); o->type = p.type() == mp::var::INTEGER; o->result_var = p.is_result_var_known() ? p.get_result_var() : -1;
  o->new_rhs = c.GetConstraint().rhs(); o->new_coef = c.GetConstraint().GetBody().size() == 1 ? c.GetConstraint().GetBody().coef(0) : 0.0;
  return 0;
}
W int w_cond(int kind, double lb, double ub, int ty, double coef, double rhs, OutC* o) {
  try {
    Impl I; fill(I, 1, &lb, &ub, &ty);
    switch (kind) {
      case -2: return cond<mp::CondLinConLT>(I, 0, coef, rhs, o);
      case -1: return cond<mp::CondLinConLE>(I, 0, coef, rhs, o);
      case 0: return cond<mp::CondLinConEQ>(I, 0, coef, rhs, o);
      case 1: return cond<mp::CondLinConGE>(I, 0, coef, rhs, o);
      case 2: return cond<mp::CondLinConGT>(I, 0, coef, rhs, o);
    }
    return 2;
  } catch (...) { return 3; }
}
