// C10 harness TU: the real StdBackend<Impl> status predicates on an object image.
#include "mp/backend-std.h"
extern "C" void vf_handle_solution(int status, double obj);
struct P;
template<class Tag, typename Tag::type M> struct Rob { friend typename Tag::type get(Tag) { return M; } };
struct StatusTag { typedef std::pair<int, std::string> mp::StdBackend<P>::*type; friend type get(StatusTag); };
struct P : mp::StdBackend<P> {
  void Solve() override {}
  static int n_objvals; static double objval0;
  mp::Solution GetSolution() override { mp::Solution s; s.objvals.assign((size_t)n_objvals, objval0); return s; }
  void HandleSolution(int status, fmt::CStringRef msg, const double*, const double*, double obj) override { vf_handle_solution(status, obj); }
  static void f_report(P* p) { p->ReportSolution2AMPL(); }
  mp::ArrayRef<double> GetObjectiveValues() override { return {}; }
  bool IsMIP() const override { return false; }
  void SetInterrupter(mp::Interrupter*) override {}
  double Infinity() const { return 1e100; }
  double MinusInfinity() const { return -1e100; }
  static const char* GetSolverName() { return "p"; }
  static const char* GetAMPLSolverName() { return "p"; }
  static const char* GetAMPLSolverLongName() { return "p"; }
  static const char* GetBackendName() { return "p"; }
  static const char* GetBackendLongName() { return "p"; }
  static std::string GetSolverVersion() { return "0"; }
  static void set_code(P* p, int c);
  static int f_solved(P* p) { return p->IsProblemSolved(); }
  static int f_solved_or_feas(P* p) { return p->IsProblemSolvedOrFeasible(); }
  static int f_indiff(P* p) { return p->IsProblemIndiffInfOrUnb(); }
  static int f_inf_or_unb(P* p) { return p->IsProblemInfOrUnb(); }
  static int f_infeas(P* p) { return p->IsProblemInfeasible(); }
  static int f_unb(P* p) { return p->IsProblemUnbounded(); }
  static int f_retrieved(P* p) { return p->IsSolStatusRetrieved(); }
  static int f_code(P* p) { return p->SolveCode(); }
};
template struct Rob<StatusTag, &mp::StdBackend<P>::status_>;
void P::set_code(P* p, int c) { (static_cast<mp::StdBackend<P>*>(p)->*get(StatusTag())).first = c; }
#define W extern "C" __attribute__((noinline))
int P::n_objvals = 0; double P::objval0 = 0;
// final solution report: message composition and the (code, objective value) pair handed to the solution handler
W int w_report(P* p, int nobj, double obj0) { try { P::n_objvals = nobj; P::objval0 = obj0; P::f_report(p); return 0; } catch (...) { return 3; } }
W unsigned long w_sizeof() { return sizeof(P); }
W void w_set_code(P* p, int c) { P::set_code(p, c); }
W int w_solved(P* p) { return P::f_solved(p); }
W int w_solved_or_feas(P* p) { return P::f_solved_or_feas(p); }
W int w_indiff(P* p) { return P::f_indiff(p); }
W int w_inf_or_unb(P* p) { return P::f_inf_or_unb(p); }
W int w_infeas(P* p) { return P::f_infeas(p); }
W int w_unb(P* p) { return P::f_unb(p); }
W int w_retrieved(P* p) { return P::f_retrieved(p); }
W int w_code(P* p) { return P::f_code(p); }
// never called: forces emission of P's vtable (and of every virtual member) in this TU
W void w_unused_construct(void* mem) { new (mem) P(); }
