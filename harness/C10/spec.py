from vfeng import Unit, Harness
PROPERTY = 'C10'
def units(tier):
    u = Unit('backend', 'wrap.cc', 'harness.c', externs=['vf_handle_solution', '_ZN3fmt14BasicFormatterIcNS_12ArgFormatterIcEEE6formatENS_15BasicCStringRefIcEE', '_ZNK2mp11BasicSolver11GetWarningsB5cxx11Ev', '_ZN2mp11BasicSolver14FormatObjValueEd'], ll2c_args=['--inline-mem', '2048'])
    u.real_cxxflags = ['-fno-sanitize=vptr']
    u.stub_undefined = True   # the never-called P::P() references BasicSolver's out-of-line members
    return [u]
def harnesses(tier):
    hr = Harness('h_report', 'backend', unwind=70, timeout=600, mem_gb=16, tv_cases=0, bounds='status code = any 32-bit int; 0..2 objective values; any objective value', flags=['--object-bits', '10'],
        claims='ReportSolution2AMPL: objective fragment in the solve message and objective value handed to the solution handler iff the code is 0-99, 300-349 or 400-449 and an objective value exists; the code handed on is SolveCode()',
        assumptions=['object image: zero-filled backend object (all reporting options off, no extra message, no alternative solutions, no warnings) with the real vtable of a harness Impl', '{fmt} format interpreter, BasicSolver::GetWarnings and FormatObjValue (src/solver.cc) are stubs; the message is observed through the format strings written'])
    hr.replay_on = 'gen'; hr.unwindset = ['h_report.0:1800']
    return [hr, Harness('h_predicates', 'backend', unwind=20, timeout=300,
        bounds='status code = any 32-bit int (no bound)',
        claims='IsProblemSolved/SolvedOrFeasible/Infeasible/Unbounded/IndiffInfOrUnb/InfOrUnb/IsSolStatusRetrieved/SolveCode of StdBackend<Impl> agree with the documented ranges',
        assumptions=['object image: only the vptr (real vtable of a harness Impl) and status_.first are initialised; CBMC pointer checks prove nothing else is read'],
        known=['sof_ranges', 'infeasible_299'], tv_cases=3000, flags=['--max-field-sensitivity-array-size', '256'])]
