from vfeng import Unit, Harness
PROPERTY = 'C10'
def units(tier):
    u = Unit('backend', 'wrap.cc', 'harness.c')
    u.stub_undefined = True   # the never-called P::P() references BasicSolver's out-of-line members
    return [u]
def harnesses(tier):
    return [Harness('h_predicates', 'backend', unwind=20, timeout=300,
        bounds='status code = any 32-bit int (no bound)',
        claims='IsProblemSolved/SolvedOrFeasible/Infeasible/Unbounded/IndiffInfOrUnb/InfOrUnb/IsSolStatusRetrieved/SolveCode of StdBackend<Impl> agree with the documented ranges',
        assumptions=['object image: only the vptr (real vtable of a harness Impl) and status_.first are initialised; CBMC pointer checks prove nothing else is read'],
        known=['sof_ranges', 'infeasible_299'], tv_cases=3000, flags=['--max-field-sensitivity-array-size', '256'])]
