/* C10: solve-result code classification agrees with the documented ranges, for every 32-bit code. */
#include "vf_harness.h"
/* pointer-typed backing store: keeps the vptr a typed pointer for CBMC (byte arrays lose pointer identity) */
static char *objp[224]; 
#define obj ((char *)objp)
static char *mkobj(u32 code) {
  VF_REQUIRE(w_sizeof() <= sizeof objp);
  for (unsigned i = 0; i < 16; i++) obj[i] = 0;
  *(char **)obj = (char *)&_ZTV1P + 16;      /* the real vtable of the harness backend P : StdBackend<P> */
  w_set_code(obj, code);
  return obj;
}
#define IN(c, lo, hi) ((s32)(c) >= (lo) && (s32)(c) <= (hi))
void h_predicates(void) {
  u32 code = vf_nd32(); char *o = mkobj(code);
  u32 solved = w_solved(o), sof = w_solved_or_feas(o), indiff = w_indiff(o), iou = w_inf_or_unb(o),
      infeas = w_infeas(o), unb = w_unb(o), retr = w_retrieved(o), sc = w_code(o);
  VF_OBS(solved); VF_OBS(sof); VF_OBS(indiff); VF_OBS(iou); VF_OBS(infeas); VF_OBS(unb); VF_OBS(retr); VF_OBS(sc);
  VF_ASSERT(sc == code, "SolveCode() returns the stored backend code");
  VF_ASSERT((solved != 0) == IN(code, 0, 99), "IsProblemSolved <=> 0..99");
#ifndef KF_sof_ranges
  VF_ASSERT((sof != 0) == (IN(code, 0, 99) || IN(code, 300, 349) || IN(code, 400, 449)), "IsProblemSolvedOrFeasible <=> 0..99, 300..349, 400..449");
#else
  if (!(IN(code, 300, 349) || IN(code, 400, 449))) VF_ASSERT((sof != 0) == IN(code, 0, 99), "IsProblemSolvedOrFeasible outside the known-finding region");
#endif
#ifdef KF_infeasible_299
  VF_REQUIRE(code != 299);
#endif
  VF_ASSERT((infeas != 0) == IN(code, 200, 299), "IsProblemInfeasible <=> 200..299");
  VF_ASSERT((unb != 0) == IN(code, 300, 399), "IsProblemUnbounded <=> 300..399");
  VF_ASSERT((indiff != 0) == IN(code, 450, 469), "IsProblemIndiffInfOrUnb <=> 450..469");
  VF_ASSERT((iou != 0) == (IN(code, 200, 399) || IN(code, 450, 469)), "IsProblemInfOrUnb <=> 200..399, 450..469");
  VF_ASSERT((retr != 0) == ((s32)code != -200), "IsSolStatusRetrieved <=> code != NOT_SET");
  /* mutual consistency: the classes partition the documented space */
  VF_ASSERT(!(solved && (infeas || unb || indiff)), "solved excludes infeasible/unbounded/undecided");
  VF_ASSERT(!(infeas && unb), "infeasible excludes unbounded");
  VF_WITNESS();
}
