/* C10: solve-result code classification agrees with the documented ranges, for every 32-bit code. */
#include "vf_harness.h"
/* pointer-typed backing store: keeps the vptr a typed pointer for CBMC (byte arrays lose pointer identity) */
static char *objp[224]; 
#define obj ((char *)objp)
static char *mkobj(u32 code) {
  VF_REQUIRE(w_sizeof() <= sizeof objp);
  for (unsigned i = 0; i < 16; i++) obj[i] = 0;
  *(char **)obj = (char *)&_ZTV1P + 16;      /* the real vtable of the harness backend P : StdBackend<P> */
  w_set_code(obj, code);
  return obj;
}
#define IN(c, lo, hi) ((s32)(c) >= (lo) && (s32)(c) <= (hi))
void h_predicates(void) {
  u32 code = vf_nd32(); char *o = mkobj(code);
  u32 solved = w_solved(o), sof = w_solved_or_feas(o), indiff = w_indiff(o), iou = w_inf_or_unb(o),
      infeas = w_infeas(o), unb = w_unb(o), retr = w_retrieved(o), sc = w_code(o);
  VF_OBS(solved); VF_OBS(sof); VF_OBS(indiff); VF_OBS(iou); VF_OBS(infeas); VF_OBS(unb); VF_OBS(retr); VF_OBS(sc);
  VF_ASSERT(sc == code, "SolveCode() returns the stored backend code");
  VF_ASSERT((solved != 0) == IN(code, 0, 99), "IsProblemSolved <=> 0..99");
#ifndef KF_sof_ranges
  VF_ASSERT((sof != 0) == (IN(code, 0, 99) || IN(code, 300, 349) || IN(code, 400, 449)), "IsProblemSolvedOrFeasible <=> 0..99, 300..349, 400..449");
#else
  if (!(IN(code, 300, 349) || IN(code, 400, 449))) VF_ASSERT((sof != 0) == IN(code, 0, 99), "IsProblemSolvedOrFeasible outside the known-finding region");
#endif
#ifdef KF_infeasible_299
  VF_REQUIRE(code != 299);
#endif
  VF_ASSERT((infeas != 0) == IN(code, 200, 299), "IsProblemInfeasible <=> 200..299");
  VF_ASSERT((unb != 0) == IN(code, 300, 399), "IsProblemUnbounded <=> 300..399");
  VF_ASSERT((indiff != 0) == IN(code, 450, 469), "IsProblemIndiffInfOrUnb <=> 450..469");
  VF_ASSERT((iou != 0) == (IN(code, 200, 399) || IN(code, 450, 469)), "IsProblemInfOrUnb <=> 200..399, 450..469");
  VF_ASSERT((retr != 0) == ((s32)code != -200), "IsSolStatusRetrieved <=> code != NOT_SET");
  /* mutual consistency: the classes partition the documented space */
  VF_ASSERT(!(solved && (infeas || unb || indiff)), "solved excludes infeasible/unbounded/undecided");
  VF_ASSERT(!(infeas && unb), "infeasible excludes unbounded");
  VF_WITNESS();
}

/* ---- final report to AMPL: the objective appears in the solve message, and reaches the solution handler, exactly for the codes that
 * carry a (feasible) solution: solved 0-99, unbounded-with-solution 300-349, limit-with-solution 400-449 ---- */
static u32 n_obj_fragments, n_handle; static u32 h_code; static double h_obj;
static int has_sub(const char *s, const char *w) { for (u32 i = 0; i < 64; i++) { if (!s[i]) return 0; u32 k = 0; for (; k < 12; k++) { if (!w[k]) return 1; if (s[i + k] != w[k]) break; } if (!w[k]) return 1; } return 0; }
#ifndef VF_REAL
/* {fmt} format-string interpreter: the harness only notes which message fragments are written */
void _ZN3fmt14BasicFormatterIcNS_12ArgFormatterIcEEE6formatENS_15BasicCStringRefIcEE(char *self, char *fmt) { if (has_sub(fmt, "objective {}")) n_obj_fragments++; }
/* BasicSolver::FormatObjValue (solver.cc): {value, precision} */
vf_ret__ZN2mp11BasicSolver14FormatObjValueEd _ZN2mp11BasicSolver14FormatObjValueEd(char *self, vf_f64 v) { vf_ret__ZN2mp11BasicSolver14FormatObjValueEd r; r.f0 = v; r.f1 = 15; return r; }
/* BasicSolver::GetWarnings (solver.cc): no warnings */
void _ZNK2mp11BasicSolver11GetWarningsB5cxx11Ev(char *ret, char *self) { *(char **)ret = ret + 16; *(u64 *)(ret + 8) = 0; ret[16] = 0; }
#endif
void vf_handle_solution(u32 status, double objv) { n_handle++; h_code = status; h_obj = objv; }
void h_report(void) {
  u32 code = vf_nd32(); u32 nobj = (u32)vf_ndrange(0, 2); double obj0 = vf_nddouble(); VF_REQUIRE(!VF_ISNAN(obj0));
  VF_REQUIRE(w_sizeof() <= sizeof objp);
  for (unsigned i = 0; i < sizeof objp; i++) obj[i] = 0;      /* all options off, no extra messages, no alternative solutions */
  char *o = mkobj(code);
  n_obj_fragments = 0; n_handle = 0;
  u32 rc = w_report(o, nobj, obj0);
  VF_OBS(rc); VF_OBS(n_obj_fragments); VF_OBS(n_handle);
  VF_ASSERT(rc == 0, "no exception");
  int with_sol = IN(code, 0, 99) || IN(code, 300, 349) || IN(code, 400, 449);
  VF_ASSERT(n_handle == 1 && h_code == code, "the solve code handed to the solution handler is the backend's code");
#ifndef VF_REAL
  VF_ASSERT((n_obj_fragments > 0) == (with_sol && nobj > 0), "objective value appears in the solve message iff the code carries a solution and an objective value exists");
#endif
  if (with_sol && nobj == 1) VF_ASSERT(vf_d2bits(h_obj) == vf_d2bits(obj0), "objective value handed on with the solution");
  if (!with_sol || nobj == 0) VF_ASSERT(VF_ISNAN(h_obj), "no objective value (NaN) handed on when none is reported");
  VF_WITNESS();
}
