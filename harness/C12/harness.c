/* C12: the objective(s) delivered to the problem builder are exactly the ones the options select.
 * A "file" is a symbolic list of NL segments (O = objective sense + nonlinear part, G = objective linear part, b = variable bounds);
 * the real NLReader<SymReader, SolverNLHandlerImpl<BasicSolver, MockPB, NLProblemBuilder<MockPB>>> parses its token stream and the real
 * handler/builder logic decides what reaches the recording builder.  The oracle interprets the same segment list directly. */
#include "vf_harness.h"
/* enumerated shape (one harness instance per shape): the sequence of segment types, the number of linear terms of each G segment, the
 * number of variables and the reader flags are concrete, so that every read position is concrete and symbolic execution follows one
 * control path; every index, sense, coefficient, constant, the objective count and the option state stay symbolic */
#ifndef SEGS
#define SEGS { 0, 2 }
#define NTS { 0, 0 }
#define NSEG 2
#endif
#ifndef NUMVARS
#define NUMVARS 2
#endif
#ifndef FLAGS
#define FLAGS 0
#endif
static const u32 seg_types[NSEG] = SEGS; static const u32 seg_nt[NSEG] = NTS;
#define MAXV 2
#define MAXO 3
enum { SEG_O = 0, SEG_G = 1, SEG_B = 2 };
struct seg { u32 type, idx, otype, ecode, evar, nterms, tvar[MAXV]; double ecoef, tcoef[MAXV]; };
static struct seg segs[NSEG]; static const u32 nseg = NSEG, num_vars = NUMVARS; static u32 num_objs;
static int tok_mismatch; static const char *tok_msg;
/* ----- token source: cursor = seg * 16 + field ----- */
enum { T_CHAR, T_UINT, T_DBL, T_EOL, T_END };
static int seg_len(const struct seg *s) {
  if (s->type == SEG_O) return 7;
  if (s->type == SEG_G) return 4 + 3 * (int)(s->nterms <= MAXV ? s->nterms : MAXV);
  return 2 + 2 * (int)num_vars;
}
/* kind and value of the token at (s, f) */
static int tok_at(u32 si, u32 f, s64 *iv, double *dv) {
  *iv = 0; *dv = 0;
  if (si >= nseg) { return T_END; }
  const struct seg *s = &segs[si];
  if (s->type == SEG_O) {
    switch (f) { case 0: *iv = 'O'; return T_CHAR; case 1: *iv = s->idx; return T_UINT; case 2: *iv = s->otype; return T_UINT; case 3: return T_EOL;
                 case 4: *iv = s->ecode ? 'v' : 'n'; return T_CHAR; case 5: if (s->ecode) { *iv = s->evar; return T_UINT; } *dv = s->ecoef; return T_DBL; default: return T_EOL; }
  }
  if (s->type == SEG_G) {
    switch (f) { case 0: *iv = 'G'; return T_CHAR; case 1: *iv = s->idx; return T_UINT; case 2: *iv = s->nterms; return T_UINT; case 3: return T_EOL; }
    u32 t = (f - 4) / 3, r = (f - 4) % 3;
    if (t >= MAXV) return T_END;
    if (r == 0) { *iv = s->tvar[t]; return T_UINT; } if (r == 1) { *dv = s->tcoef[t]; return T_DBL; } return T_EOL;
  }
  if (f == 0) { *iv = 'b'; return T_CHAR; } if (f == 1) return T_EOL;
  if ((f - 2) % 2 == 0) { *iv = '3'; return T_CHAR; } return T_EOL;      /* bound kind 3 = free */
}
u32 vf_tk_pos, vf_tk_err; u64 vf_tk_len;
static u32 advance(u32 pos) {
  u32 si = pos >> 4, f = (pos & 15) + 1;
  if (si < nseg && f >= (u32)seg_len(&segs[si])) { si++; f = 0; }
  return (si << 4) | f;
}
static int expect_bad;
/* a read error ends the explored path right here (after checking that the oracle expects one): error paths must not be merged back,
 * or the cursor would become a symbolic value and symbolic execution would have to explore every segment type at every position */
static void error_point(const char *why) {
  VF_ASSERT(expect_bad, "the reader raises a read error only for a file with an out-of-range index/count");
  VF_REQUIRE(0);
}
static int take(u32 pos, int want, s64 *iv, double *dv) {
  vf_tk_err = 0;
  int k = tok_at(pos >> 4, pos & 15, iv, dv);
  if (k == T_END) { vf_tk_pos = (u32)((nseg + 1) << 4); if (want != T_CHAR) { VF_ASSERT(0, "reader reads past the end of a well-formed segment list"); VF_REQUIRE(0); } return 0; }
  if (k != want) { VF_ASSERT(0, "reader asked for a token of another type than the NL format has at this position"); VF_REQUIRE(0); }
  vf_tk_pos = (u32)advance(pos); return 1;
}
u32 vf_tk_char(u32 pos) { s64 iv; double dv; return take(pos, T_CHAR, &iv, &dv) ? (u32)iv : 0; }
u32 vf_tk_uint(u32 pos) { s64 iv; double dv; if (!take(pos, T_UINT, &iv, &dv)) return 0;
  /* all generated integers are 31-bit values: the token layer's 'number is too big' error cannot arise here */
  return (u32)iv; }
u64 vf_tk_int(u32 pos, u32 width) { s64 iv; double dv; if (!take(pos, T_UINT, &iv, &dv)) return 0; return (u64)iv; }
double vf_tk_double(u32 pos) { s64 iv; double dv; if (!take(pos, T_DBL, &iv, &dv)) return 0; return dv; }
char *vf_tk_name(u32 pos) { VF_ASSERT(0, "no names in this file"); VF_REQUIRE(0); return 0; }
char *vf_tk_string(u32 pos) { VF_ASSERT(0, "no strings in this file"); VF_REQUIRE(0); return 0; }
void vf_tk_eol(u32 pos) { s64 iv; double dv; take(pos, T_EOL, &iv, &dv); }
u32 vf_tk_iseof(u32 pos) { return (pos >> 4) > nseg; }
static int nerrors;
void vf_tk_error(u32 pos, char *msg) { nerrors++; error_point(msg); }
/* operator expressions / function calls do not occur in the generated files: the recursive expression readers are cut here (ll2c --redirect-re) */
u32 vf_cut_expr_i(char *self, u32 opcode) { VF_ASSERT(0, "operator expression reader reached although the file has none"); return 0; }
u32 vf_cut_expr_v(char *self) { VF_ASSERT(0, "nested expression reader reached although the file has none"); return 0; }
/* ----- recording builder ----- */
static u32 addobjs_calls, nobj_added; static int bad_access;
static struct { u32 type_set, type, nl_set, nl, lin_set, lin_n, nterms, tvar[MAXV]; double tcoef[MAXV]; } robj[MAXO];
static struct { u32 kind, a; double d; } rexpr[2 * NSEG + 2]; static u32 nexpr;
void vf_b_addobjs(u32 n) { addobjs_calls++; nobj_added = n; }
void vf_b_obj(u32 what, u32 index, u32 a, double d) {
  if (index >= nobj_added || index >= MAXO) { bad_access = 1; return; }
  if (what == 0) { robj[index].type_set++; robj[index].type = a; }
  else if (what == 1) { robj[index].nl_set++; robj[index].nl = a; }
  else if (what == 2) { robj[index].lin_set++; robj[index].lin_n = a; robj[index].nterms = 0; }
  else { u32 k = robj[index].nterms; if (k < MAXV) { robj[index].tvar[k] = a; robj[index].tcoef[k] = d; } robj[index].nterms = k + 1; }
}
u32 vf_b_expr(u32 kind, u32 a, double d) { if (nexpr >= 2 * NSEG + 2) { bad_access = 1; return 0; } rexpr[nexpr].kind = kind; rexpr[nexpr].a = a; rexpr[nexpr].d = d; nexpr++; return nexpr; }
void vf_b_other(u32 what, u32 index) { }
#ifndef VF_REAL
/* text of the error messages is not the subject: the {fmt} format-string interpreter and the option-error constructor that formats the option name are stubs */
void _ZN3fmt14BasicFormatterIcNS_12ArgFormatterIcEEE6formatENS_15BasicCStringRefIcEE(char *self, char *fmt) { }
void _ZN2mp18InvalidOptionValueC2IiEERKNS_12SolverOptionET_N3fmt14BasicStringRefIcEE(char *self, char *opt, u32 value, char *m0, u64 m1) { }
#endif
static char *solverp[80];      /* pointer-typed backing store for the BasicSolver object image */
static int same_double(double a, double b) { return vf_d2bits(a) == vf_d2bits(b); }
void h_obj_select(void) {
  VF_REQUIRE(w_solver_size() <= sizeof solverp);
  char *S = (char *)solverp;
  s32 objno = (s32)vf_nd32(); u32 multi = vf_ndbool();
  VF_REQUIRE(objno >= -1);                      /* invariant of objno_: -1 (default) or a value accepted by SetObjNo (h_set_objno) */
  num_objs = (u32)vf_ndrange(0, MAXO);
  u32 nb = 0, gseen[MAXO] = {0, 0, 0};
  for (u32 i = 0; i < NSEG; i++) {
    struct seg *s = &segs[i];
    s->type = seg_types[i]; s->idx = vf_nd32() & 0x7fffffff; s->otype = vf_nd32() & 0x7fffffff; s->ecode = vf_ndbool(); s->evar = vf_nd32() & 0x7fffffff;
    s->ecoef = vf_nddouble(); s->nterms = seg_nt[i];
    for (u32 t = 0; t < MAXV; t++) { s->tvar[t] = vf_nd32() & 0x7fffffff; s->tcoef[t] = vf_nddouble(); }
    if (s->type == SEG_B) nb++;
    if (s->type == SEG_G && s->idx < MAXO) { VF_REQUIRE(gseen[s->idx] == 0); gseen[s->idx] = 1; }    /* at most one G segment per objective */
  }
  VF_REQUIRE(nb == 1);                          /* exactly one 'b' segment (a second one is a format error handled elsewhere) */
  u32 flags = FLAGS;                            /* 0 or READ_BOUNDS_FIRST */
  tok_mismatch = 0; nerrors = 0; addobjs_calls = 0; nobj_added = 0; bad_access = 0; nexpr = 0;
  for (u32 i = 0; i < MAXO; i++) { robj[i].type_set = robj[i].nl_set = robj[i].lin_set = robj[i].nterms = 0; }
  /* reference interpretation: does the file contain an out-of-range index / count? */
  expect_bad = 0;
  for (u32 i = 0; i < NSEG; i++) {
    struct seg *s = &segs[i];
    if (s->type == SEG_O) { if (s->idx >= num_objs || (s->ecode && s->evar >= num_vars)) expect_bad = 1; }
    else if (s->type == SEG_G) { if (s->idx >= num_objs || s->nterms < 1 || s->nterms > num_vars) expect_bad = 1;
      else for (u32 t = 0; t < MAXV; t++) { if (t < s->nterms && s->tvar[t] >= num_vars) expect_bad = 1; } }
  }
#ifdef VIA_CALLBACK
  u32 rc = w_read_cb(S, (u32)objno, multi, num_vars, num_objs, 0, flags);      /* options arrive through the after-header callback */
#else
  w_solver_set(S, (u32)objno, multi);
  u32 rc = w_read(S, num_vars, num_objs, 0, flags);
#endif
  VF_OBS(rc); VF_OBS(addobjs_calls); VF_OBS(nobj_added); VF_OBS(bad_access);
  /* ----- oracle ----- */
  u32 k = (u32)(objno < 0 ? -objno : objno); int specified = objno >= 0; int multiobj = multi && objno < 0;
  if (specified && k > num_objs) { VF_ASSERT(rc == 2, "objno beyond the file's objectives is rejected with an option error"); VF_ASSERT(addobjs_calls == 0, "nothing built after the rejection"); VF_WITNESS(); return; }
  VF_ASSERT(rc != 2, "no option error for a valid objno");
  u32 nexp = multiobj ? num_objs : ((k > 0 && num_objs > 0) ? 1 : 0);
  VF_ASSERT(!bad_access, "objective accessed beyond the number of objectives created (Problem does no index checking in release builds)");
  VF_ASSERT(nexp == 0 ? addobjs_calls == 0 : (addobjs_calls == 1 && nobj_added == nexp), "builder creates exactly the selected number of objectives");
  VF_ASSERT(rc == 0 && !expect_bad, "a file with an out-of-range index/count is rejected with a read error");
  if (rc != 0) { VF_WITNESS(); return; }
  int kth_has_O = 0;
  for (u32 r = 0; r < MAXO; r++) {
    if (r >= nexp) break;
    u32 fi = multiobj ? r : k - 1;
    /* expected content: last O segment of file objective fi, the G segment of fi */
    int has_o = 0, has_g = 0; u32 otype = 0, ecode = 0, evar = 0, nt = 0; double ecoef = 0; const struct seg *g = 0;
    for (u32 i = 0; i < NSEG; i++) { if (i >= nseg) break; struct seg *s = &segs[i];
      if (s->type == SEG_O && s->idx == fi) { has_o = 1; otype = s->otype; ecode = s->ecode; evar = s->evar; ecoef = s->ecoef; }
      if (s->type == SEG_G && s->idx == fi) { has_g = 1; g = s; nt = s->nterms; } }
    if (!multiobj && has_o) kth_has_O = 1;
    VF_ASSERT((robj[r].type_set != 0) == (has_o != 0), "objective sense delivered iff the file defines the selected objective");
    if (has_o) {
      VF_ASSERT(robj[r].type == (otype != 0 ? 1u : 0u), "sense (min/max) of the selected objective");
      u32 h = robj[r].nl;
      if (!ecode && ecoef == 0) VF_ASSERT(h == 0, "zero constant nonlinear part is delivered as 'no expression'");
      else { VF_ASSERT(h >= 1 && h <= nexpr, "nonlinear part is an expression built for this file");
        if (h >= 1 && h <= nexpr) { if (ecode) VF_ASSERT(rexpr[h - 1].kind == 1 && rexpr[h - 1].a == evar, "nonlinear part = the variable of the selected objective");
          else VF_ASSERT(rexpr[h - 1].kind == 0 && same_double(rexpr[h - 1].d, ecoef), "nonlinear part = the constant of the selected objective"); } }
    }
    VF_ASSERT((robj[r].lin_set != 0) == (has_g != 0), "linear part delivered iff the file has one for the selected objective");
    if (has_g) { VF_ASSERT(robj[r].lin_set == 1 && robj[r].lin_n == nt && robj[r].nterms == nt, "linear part: announced and delivered number of terms");
      for (u32 t = 0; t < MAXV; t++) { if (t < nt) VF_ASSERT(robj[r].tvar[t] == g->tvar[t] && same_double(robj[r].tcoef[t], g->tcoef[t]), "linear terms of the selected objective, in file order"); } }
  }
  /* the objective number echoed in the .sol file is objno_used() (SolutionAdapter::objno -> "objno {} {}" prints objno()-1) */
  u32 used = w_objno_used(S); VF_OBS(used);
  if (!multiobj) { if (nexp == 0) VF_ASSERT(used == 0, "no objective used => objno 0 echoed");
    else if (kth_has_O) VF_ASSERT(used == k, "echoed objective number is the one delivered"); }
  VF_WITNESS();
}
/* obj:no setter: establishes the invariant objno_ >= 0 after an accepted user value */
void h_set_objno(void) {
  VF_REQUIRE(w_solver_size() <= sizeof solverp);
  char *S = (char *)solverp; w_solver_set(S, (u32)-1, 0);
  s32 v = (s32)vf_nd32(); char opt[8];
  u32 rc = w_set_objno(S, opt, (u32)v); VF_OBS(rc);
  VF_ASSERT(rc <= 1, "only InvalidOptionValue");
  VF_ASSERT((rc == 0) == (v >= 0), "negative objective numbers are rejected");
  s32 raw = (s32)w_objno_raw(S); VF_OBS(raw);
  VF_ASSERT(rc == 0 ? raw == v : raw == -1, "accepted value stored, rejected value leaves the default");
  VF_WITNESS();
}
