from vfeng import Unit, Harness
PROPERTY = 'C12'
FAM = r'Read(Numeric|Logical|Symbolic|Count)Expr'
EXT = ['vf_tk_char', 'vf_tk_uint', 'vf_tk_int', 'vf_tk_double', 'vf_tk_name', 'vf_tk_string', 'vf_tk_eol', 'vf_tk_iseof', 'vf_tk_error',
       'vf_b_addobjs', 'vf_b_obj', 'vf_b_expr', 'vf_b_other',
       '_ZN3fmt14BasicFormatterIcNS_12ArgFormatterIcEEE6formatENS_15BasicCStringRefIcEE', '_ZN2mp18InvalidOptionValueC2IiEERKNS_12SolverOptionET_N3fmt14BasicStringRefIcEE']
def units(tier):
    u = Unit('objsel', 'wrap.cc', 'harness.c', externs=EXT,
             ll2c_args=['--redirect-re', r'.:ReadNumericExprEi$=vf_cut_expr_i', '--redirect-re', r'.:(ReadLogicalExprEv|ReadSymbolicExprEv)$=vf_cut_expr_v'])
    u.stub_undefined = True
    return [u]
def harnesses(tier):
    N = 4 if tier == 'quick' else 6
    A = ['file = symbolic list of <= %d segments out of O (objective index, sense, nonlinear part = constant or variable), G (objective index, <= 2 linear terms), b (free bounds); every index/count/coefficient symbolic (any 31-bit value / any double); exactly one b segment, at most one G per objective' % N,
         'header: 1..2 variables, 0..3 objectives; objno_ any int >= -1 (invariant established by SetObjNo, harness h_set_objno), multiobj_ on/off; flags 0 / READ_BOUNDS_FIRST',
         'token layer = SymReader (contract of TextReader/BinaryReader decided under C02); operator expressions and function calls do not occur (recursive expression readers cut); fmt::format of the error text is real code in the translation']
    hs = [
      Harness('h_obj_select', 'objsel', unwind=N + 3, timeout=900 if tier == 'quick' else 3600, mem_gb=24, defines=['NSEG=%d' % N], tv_cases=0,
              bounds='<= %d segments, <= 3 objectives, <= 2 variables, unwind %d' % (N, N + 3), assumptions=A, flags=['--object-bits', '10'],
              claims='exactly the selected objective(s) reach the builder (count, sense, nonlinear part, linear terms, order), out-of-range objno => InvalidOptionValue, no objective access beyond the allocated count, objno_used() = delivered objective'),
      Harness('h_set_objno', 'objsel', unwind=4, timeout=300, defines=['NSEG=%d' % N], tv_cases=0, bounds='option value: any 32-bit int', assumptions=A[1:2],
              claims='SetObjNo accepts exactly the non-negative values'),
    ]
    hs[1].replay_on = 'gen'
    return hs
