from vfeng import Unit, Harness
PROPERTY = 'C12'
FAM = r'Read(Numeric|Logical|Symbolic|Count)Expr'
EXT = ['vf_tk_char', 'vf_tk_uint', 'vf_tk_int', 'vf_tk_double', 'vf_tk_name', 'vf_tk_string', 'vf_tk_eol', 'vf_tk_iseof', 'vf_tk_error',
       'vf_b_addobjs', 'vf_b_obj', 'vf_b_expr', 'vf_b_other',
       '_ZN3fmt14BasicFormatterIcNS_12ArgFormatterIcEEE6formatENS_15BasicCStringRefIcEE', '_ZN2mp18InvalidOptionValueC2IiEERKNS_12SolverOptionET_N3fmt14BasicStringRefIcEE']
def units(tier):
    u = Unit('objsel', 'wrap.cc', 'harness.c', externs=EXT,
             ll2c_args=['--inline-mem', '1024', '--redirect-re', r'.:ReadNumericExprEi$=vf_cut_expr_i', '--redirect-re', r'.:(ReadLogicalExprEv|ReadSymbolicExprEv)$=vf_cut_expr_v'])
    u.stub_undefined = True
    return [u]
def shapes(tier):
    L = 3 if tier == 'quick' else 4
    out = []
    import itertools
    for nv in (1, 2):
        for n in range(1, L + 1):
            for bpos in range(n):
                others = n - 1
                # each non-b segment: O, or G with 1..nv terms, or (thorough) G with an invalid term count
                opts = ['O'] + ['G%d' % t for t in range(1, nv + 1)] + (['G0', 'G%d' % (nv + 1)] if tier != 'quick' else [])
                for combo in itertools.product(opts, repeat=others):
                    if tier == 'quick' and n == L and nv == 2 and len(set(combo)) == 1 and combo[0] != 'O': continue
                    seq = list(combo[:bpos]) + ['b'] + list(combo[bpos:])
                    out.append((nv, seq))
    return out
def harnesses(tier):
    A = ['file = list of NL segments out of O (objective index, sense, nonlinear part = constant or variable), G (objective index, linear terms), b (free bounds); shape enumerated (segment type sequence, terms per G segment, 1..2 variables, flags 0 / READ_BOUNDS_FIRST), every index / sense / coefficient / constant symbolic (any 31-bit value / any double); exactly one b segment, at most one G per objective',
         'header: 0..3 objectives (symbolic); objno_ any int >= -1 (invariant established by SetObjNo, harness h_set_objno), multiobj_ on/off (symbolic)',
         'token layer = SymReader (contract of TextReader/BinaryReader decided under C02); operator expressions and function calls do not occur (recursive expression readers cut); {fmt} format-string interpreter is a stub (error text not the subject)']
    hs = []
    for (nv, seq) in shapes(tier):
        for fl in (0, 1):
            if tier == 'quick' and fl == 1 and len(seq) == 3 and seq.count('O') != 1: continue
            types = [{'O': 0, 'G': 1, 'b': 2}[x[0]] for x in seq]; nts = [int(x[1:]) if x[0] == 'G' else 0 for x in seq]
            D = ['SEGS={%s}' % ','.join(map(str, types)), 'NTS={%s}' % ','.join(map(str, nts)), 'NSEG=%d' % len(seq), 'NUMVARS=%d' % nv, 'FLAGS=%d' % fl]
            h = Harness('h_obj_select', 'objsel', unwind=8, timeout=300 if tier == 'quick' else 1200, mem_gb=16, defines=D, tv_cases=0,
                        bounds='segments %s, %d variables, flags %d; <= 3 objectives' % (' '.join(seq), nv, fl), assumptions=A, flags=['--object-bits', '10'],
                        claims='exactly the selected objective(s) reach the builder (count, sense, nonlinear part, linear terms, order), out-of-range objno => InvalidOptionValue, no objective access beyond the allocated count, objno_used() = delivered objective')
            h.label = 'h_obj_select[v%d,%s,f%d]' % (nv, ''.join(seq), fl); hs.append(h)
    # the same check with the option state arriving through the after-header callback (the real driver flow), on a few shapes
    for (nv, seq) in [(1, ['b']), (1, ['b', 'O']), (2, ['O', 'b', 'G1']), (2, ['G2', 'O', 'b'])]:
        types = [{'O': 0, 'G': 1, 'b': 2}[x[0]] for x in seq]; nts = [int(x[1:]) if x[0] == 'G' else 0 for x in seq]
        D = ['VIA_CALLBACK', 'SEGS={%s}' % ','.join(map(str, types)), 'NTS={%s}' % ','.join(map(str, nts)), 'NSEG=%d' % len(seq), 'NUMVARS=%d' % nv, 'FLAGS=0']
        h = Harness('h_obj_select', 'objsel', unwind=8, timeout=300 if tier == 'quick' else 1200, mem_gb=16, defines=D, tv_cases=0, bounds='segments %s, %d variables; options set inside the after-header callback' % (' '.join(seq), nv), assumptions=A, flags=['--object-bits', '10'],
                    claims='as h_obj_select, with objno/multiobj parsed in the after-header callback: the range check and the objective selection use the parsed values')
        h.label = 'h_obj_select[cb,v%d,%s]' % (nv, ''.join(seq)); hs.append(h)
    h2 = Harness('h_set_objno', 'objsel', unwind=4, timeout=300, tv_cases=0, bounds='option value: any 32-bit int', assumptions=A[1:2], claims='SetObjNo accepts exactly the non-negative values')
    h2.replay_on = 'gen'; hs.append(h2)
    return hs
