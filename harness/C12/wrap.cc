// C12 harness TU: the real NLReader<Reader, Handler> segment reader, the real SolverNLHandlerImpl / NLProblemBuilder objective
// selection logic and the real BasicSolver objno accessors, instantiated on a symbolic token reader and a recording problem builder.
#include "mp/nl-reader.h"
#include "mp/solver.h"
#include "mp/solver-io.h"
#include "vf_symreader.h"
extern "C" {
void vf_b_addobjs(int n);
void vf_b_obj(int what, int index, int a, double d);      // what: 0 set_type, 1 set_nonlinear_expr, 2 set_linear_expr(n), 3 AddTerm(var, coef)
int vf_b_expr(int kind, int a, double d);                   // expression factory: 0 numeric constant, 1 variable, 2 anything else
void vf_b_other(int what, int index);                       // every other builder call (bounds, constraints, ...): index recorded
}
struct X { int id = 0; X() {} X(int i) : id(i) {} explicit operator bool() const { return id != 0; } };
struct LinB { int what, index; void AddTerm(int v, double c) { if (what == 3) vf_b_obj(3, index, v, c); else vf_b_other(100 + what, v); } };
struct ArgB { int id; void AddArg(X) {} void AddSlope(double) {} void AddBreakpoint(double) {} void SetValue(int i, double) { vf_b_other(20, i); } void SetValue(int i, int) { vf_b_other(21, i); } };
struct MockPB {
  typedef X Function; typedef X Expr; typedef X NumericExpr; typedef X LogicalExpr; typedef X CountExpr; typedef X Reference;
  typedef LinB LinearObjBuilder; typedef LinB LinearConBuilder; typedef LinB LinearExprBuilder;
  typedef ArgB PLTermBuilder; typedef ArgB CallExprBuilder; typedef ArgB IteratedExprBuilder; typedef ArgB NumberOfExprBuilder; typedef ArgB SymbolicNumberOfExprBuilder;
  typedef ArgB CountExprBuilder; typedef ArgB IteratedLogicalExprBuilder; typedef ArgB PairwiseExprBuilder; typedef ArgB IntSuffixHandler; typedef ArgB DblSuffixHandler;
  void SetInfo(const mp::NLHeader&) {}
  void AddVars(int n, mp::var::Type) { vf_b_other(1, n); }
  void AddCommonExprs(int n) { vf_b_other(2, n); }
  void AddObjs(int n) { vf_b_addobjs(n); }
  void AddAlgebraicCons(int n) { vf_b_other(3, n); }
  void AddLogicalCons(int n) { vf_b_other(4, n); }
  void AddFunctions(int n) { vf_b_other(5, n); }
  struct MObj { int i; void set_type(mp::obj::Type t) const { vf_b_obj(0, i, (int)t, 0); } void set_nonlinear_expr(X e) const { vf_b_obj(1, i, e.id, 0); }
                LinB set_linear_expr(int n) const { vf_b_obj(2, i, n, 0); return LinB{3, i}; } };
  MObj obj(int i) { return MObj{i}; }
  struct MCon { int i; void set_nonlinear_expr(X) const { vf_b_other(6, i); } LinB set_linear_expr(int) const { vf_b_other(7, i); return LinB{4, i}; }
                void set_lb(double) const { vf_b_other(8, i); } void set_ub(double) const { vf_b_other(9, i); } void set_dual(double) const { vf_b_other(10, i); }
                void set_expr(X) const { vf_b_other(11, i); } void set_position(int) const {} void set_value(double) const { vf_b_other(12, i); } };
  MCon algebraic_con(int i) { return MCon{i}; } MCon logical_con(int i) { return MCon{i}; } MCon common_expr(int i) { return MCon{i}; } MCon var(int i) { return MCon{i}; }
  void SetComplementarity(int c, int v, mp::ComplInfo) { vf_b_other(13, c); vf_b_other(14, v); }
  void DefineFunction(int i, fmt::StringRef, int, mp::func::Type) { vf_b_other(15, i); }
  ArgB AddIntSuffix(fmt::StringRef, mp::suf::Kind, int) { return ArgB{0}; } ArgB AddDblSuffix(fmt::StringRef, mp::suf::Kind, int) { return ArgB{0}; }
  X MakeNumericConstant(double v) { return X(vf_b_expr(0, 0, v)); }
  X MakeVariable(int i) { return X(vf_b_expr(1, i, 0)); }
  X MakeCommonExpr(int i) { return X(vf_b_expr(2, i, 0)); }
  X MakeUnary(mp::expr::Kind, X) { return X(vf_b_expr(2, 0, 0)); } X MakeBinary(mp::expr::Kind, X, X) { return X(vf_b_expr(2, 0, 0)); }
  X MakeIf(X, X, X) { return X(vf_b_expr(2, 0, 0)); }
  ArgB BeginPLTerm(int) { return ArgB{0}; } X EndPLTerm(ArgB, X) { return X(vf_b_expr(2, 0, 0)); }
  X function(int i) { vf_b_other(16, i); return X(1); }
  ArgB BeginCall(X, int) { return ArgB{0}; } X EndCall(ArgB) { return X(vf_b_expr(2, 0, 0)); }
  ArgB BeginIterated(mp::expr::Kind, int) { return ArgB{0}; } X EndIterated(ArgB) { return X(vf_b_expr(2, 0, 0)); }
  ArgB BeginSum(int) { return ArgB{0}; } X EndSum(ArgB) { return X(vf_b_expr(2, 0, 0)); }
  ArgB BeginNumberOf(int, X) { return ArgB{0}; } X EndNumberOf(ArgB) { return X(vf_b_expr(2, 0, 0)); }
  ArgB BeginSymbolicNumberOf(int, X) { return ArgB{0}; } X EndSymbolicNumberOf(ArgB) { return X(vf_b_expr(2, 0, 0)); }
  ArgB BeginCount(int) { return ArgB{0}; } X EndCount(ArgB) { return X(vf_b_expr(2, 0, 0)); }
  X MakeLogicalConstant(bool) { return X(vf_b_expr(2, 0, 0)); } X MakeNot(X) { return X(vf_b_expr(2, 0, 0)); }
  X MakeBinaryLogical(mp::expr::Kind, X, X) { return X(vf_b_expr(2, 0, 0)); } X MakeRelational(mp::expr::Kind, X, X) { return X(vf_b_expr(2, 0, 0)); }
  X MakeLogicalCount(mp::expr::Kind, X, X) { return X(vf_b_expr(2, 0, 0)); } X MakeImplication(X, X, X) { return X(vf_b_expr(2, 0, 0)); }
  ArgB BeginIteratedLogical(mp::expr::Kind, int) { return ArgB{0}; } X EndIteratedLogical(ArgB) { return X(vf_b_expr(2, 0, 0)); }
  ArgB BeginPairwise(mp::expr::Kind, int) { return ArgB{0}; } X EndPairwise(ArgB) { return X(vf_b_expr(2, 0, 0)); }
  X MakeStringLiteral(fmt::StringRef) { return X(vf_b_expr(2, 0, 0)); } X MakeSymbolicIf(X, X, X) { return X(vf_b_expr(2, 0, 0)); }
};
// the real BasicSolver option state (objno_, multiobj_, obj_added_, opts_read_) on an object image: the accessors used by the reader are
// inline non-virtual members that touch only these four fields
template<class Tag, typename Tag::type M> struct Rob { friend typename Tag::type get(Tag) { return M; } };
#define ROB(Tag, T, member) struct Tag { typedef T mp::BasicSolver::*type; friend type get(Tag); }; template struct Rob<Tag, &mp::BasicSolver::member>;
ROB(TObjno, int, objno_) ROB(TMulti, bool, multiobj_) ROB(TAdded, bool, obj_added_) ROB(TOpts, bool, opts_read_)
typedef mp::internal::SolverNLHandlerImpl<mp::BasicSolver, MockPB, mp::internal::NLProblemBuilder<MockPB> > Hnd;
#define W extern "C" __attribute__((noinline))
W unsigned long w_solver_size() { return sizeof(mp::BasicSolver); }
W void w_solver_set(mp::BasicSolver* s, int objno, int multi) { s->*get(TObjno()) = objno; s->*get(TMulti()) = multi != 0; s->*get(TAdded()) = false; s->*get(TOpts()) = false; }
W int w_objno_used(mp::BasicSolver* s) { return s->objno_used(); }
W int w_objno_raw(mp::BasicSolver* s) { return s->*get(TObjno()); }
// obj:no option setter (SetObjNo): 0 = accepted, 1 = InvalidOptionValue
W int w_set_objno(mp::BasicSolver* s, const mp::SolverOption* opt, int value) {
  try { s->SetObjNo(*opt, value); return 0; } catch (const mp::InvalidOptionValue&) { return 1; } catch (...) { return 3; }
}
// the pipeline of ReadNLString after the header has been parsed: handler.OnHeader(h); NLReader(reader, h, handler, flags).Read()
W int w_read(mp::BasicSolver* s, int num_vars, int num_objs, int num_cons, int flags) {
  try {
    mp::NLHeader h = mp::NLHeader(); h.num_vars = num_vars; h.num_objs = num_objs; h.num_algebraic_cons = num_cons;
    MockPB pb; Hnd hnd(pb, *s);
    hnd.OnHeader(h);
    SymReader rd;
    mp::internal::NLReader<SymReader, Hnd>(rd, h, hnd, flags).Read();
    return 0;
  } catch (const mp::InvalidOptionValue&) { return 2; } catch (const VfReadError&) { return 1; } catch (...) { return 3; }
}
// the driver flow (ModelManagerWithProblemBuilder::ReadNLModel): the solver options are parsed inside the after-header callback, i.e. the
// option state (objno_, multiobj_) changes from its defaults to the user's values between the start of OnHeader and the objective selection
W int w_read_cb(mp::BasicSolver* s, int objno, int multi, int num_vars, int num_objs, int num_cons, int flags) {
  try {
    mp::NLHeader h = mp::NLHeader(); h.num_vars = num_vars; h.num_objs = num_objs; h.num_algebraic_cons = num_cons;
    w_solver_set(s, -1, 0);                                  // defaults before the options are parsed
    MockPB pb; Hnd hnd(pb, *s, [s, objno, multi]() { s->*get(TObjno()) = objno; s->*get(TMulti()) = multi != 0; });
    hnd.OnHeader(h);
    SymReader rd;
    mp::internal::NLReader<SymReader, Hnd>(rd, h, hnd, flags).Read();
    return 0;
  } catch (const mp::InvalidOptionValue&) { return 2; } catch (const VfReadError&) { return 1; } catch (...) { return 3; }
}
