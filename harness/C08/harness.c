/* C08: easy model API -- variable permutation, header class counts, permuted feeds, un-permutation of the solution. */
#include "vf_harness.h"
#ifndef MAXN
#define MAXN 4
#endif
#ifndef MAXQ
#define MAXQ 3
#endif
#define MAXA 3
struct model { s32 n; double *lb, *ub; s32 *type; double *c; s32 qfmt; u64 qnz; u64 *qstart; s32 *qindex; double *qval;
               s32 nrows; u64 anz; u64 *astart; s32 *aindex; double *aval; s32 nini; s32 *ini_index; double *ini_val; s32 sufkind; double *sufvals; };
static struct model M; static s32 vperm[MAXN], vpinv[MAXN], hdr[8];
static u32 n, has_type, has_c;
static int same(double a, double b) { return vf_d2bits(a) == vf_d2bits(b); }
/* ---- recorders for the checking writers ---- */
static u32 nb_written; static int feed_bad; static const char *feed_msg;
#define FEEDCHK(c, m) do { if (!(c) && !feed_bad) { feed_bad = 1; feed_msg = m; } } while (0)
void vf_w_bounds(u32 pos, double l, double u) {
  FEEDCHK(pos == nb_written && pos < n, "bounds written once per position, in order");
  if (pos < n) { s32 j = vpinv[pos]; FEEDCHK(j >= 0 && (u32)j < n && same(l, M.lb[j]) && same(u, M.ub[j]), "bounds at position p are those of original variable VPermInv(p)"); }
  nb_written++;
}
static u32 cur_what, cur_n, cur_cnt, cur_row; static u32 grad_seen[MAXN]; static u32 ini_cnt, suf_cnt, suf_kind;
static int nonlinear[MAXN];
void vf_w_begin(u32 what, u32 cnt) { if (what >= 100) { cur_row = what - 100; cur_cnt = 0; cur_n = 0; return; } cur_what = what & 15; cur_n = cnt; cur_cnt = 0; if ((what & 15) >= 4) suf_kind = what >> 4; }
void vf_w_sparse(u32 what, u32 idx, double v) {
  if (what == 0) {          /* objective gradient */
    FEEDCHK(idx < n, "gradient index within the variables");
    if (idx < n) { s32 j = vpinv[idx]; FEEDCHK(same(v, has_c ? M.c[j] : 0.0), "gradient entry at VPerm(j) carries c[j]"); FEEDCHK(!grad_seen[j], "one gradient entry per variable"); grad_seen[j] = 1;
                   FEEDCHK((has_c && M.c[j] != 0) || nonlinear[j], "gradient entries only for variables in the objective"); }
  } else if (what == 2) {   /* initial guess */
    FEEDCHK(ini_cnt < (u32)M.nini, "no more guesses than given");
    if (ini_cnt < (u32)M.nini) { s32 j = M.ini_index[ini_cnt]; FEEDCHK(idx == (u32)vperm[j] && same(v, M.ini_val[ini_cnt]), "initial guess of variable j written at VPerm(j)"); }
    ini_cnt++;
  } else if (what == 1) {   /* linear part of row cur_row */
    u64 s0 = M.astart[cur_row], e0 = cur_row + 1 < (u32)M.nrows ? M.astart[cur_row + 1] : M.anz; u64 pos = s0 + cur_cnt;
    FEEDCHK(pos < e0, "row has no more entries");
    if (pos < e0) FEEDCHK(idx == (u32)vperm[M.aindex[pos]] && same(v, M.aval[pos]), "row coefficient of variable j written at VPerm(j)");
    cur_cnt++;
  } else {                  /* suffix values: var suffixes follow the permutation, others keep their index */
    u32 k = 0, found = 0, item = 0;   /* the suf_cnt-th non-zero value */
    u32 len = (suf_kind & 3) == 0 ? n : (suf_kind & 3) == 1 ? (u32)M.nrows : 1;
    for (u32 i = 0; i < MAXN; i++) { if (i >= len) break; if (M.sufvals[i] != 0) { if (k == suf_cnt) { found = 1; item = i; } k++; } }
    FEEDCHK(found, "only non-zero suffix values are written");
    if (found) { FEEDCHK(idx == ((suf_kind & 3) == 0 ? (u32)vperm[item] : item), "suffix value of variable j is written at VPerm(j); other kinds keep their index");
                 FEEDCHK((what == 5) == ((suf_kind & 4) != 0), "real-valued suffix written through the real-valued writer"); }
    suf_cnt++;
  }
}
static u32 cs_written;
void vf_w_colsize(u32 pos, u32 size) {
  FEEDCHK(pos == cs_written && pos + 1 < n, "column sizes for all but the last variable, in order");
  if (pos < n) { u32 j = (u32)vpinv[pos], cnt = 0; for (u32 k = 0; k < MAXA; k++) { if (k >= M.anz) break; if ((u32)M.aindex[k] == j) cnt++; } FEEDCHK(size == cnt, "column size at position p counts the entries of variable VPermInv(p)"); }
  cs_written++;
}
static u32 rd_n, rd_i; static double rd_v[MAXN];
u32 vf_r_size(void) { return rd_n - rd_i; }
double vf_r_next(void) { return rd_v[rd_i++]; }
#ifndef VF_REAL
/* libstdc++'s std::__stable_sort instantiation for vector<pair<int,int>> (buffered merge sort with recursive helpers) is replaced by a
 * stable insertion sort with the same comparison (pair operator<): every stable sorting algorithm produces the same sequence. */
void _ZSt13__stable_sortIN9__gnu_cxx17__normal_iteratorIPSt4pairIiiESt6vectorIS3_SaIS3_EEEENS0_5__ops15_Iter_less_iterEEvT_SB_T0_(char *first, char *last) {
  s32 *a = (s32 *)first; u64 cnt = (u64)(last - first) / 8;
  for (u64 i = 1; i < MAXN; i++) { if (i >= cnt) break;
    s32 kf = a[2 * i], ks = a[2 * i + 1]; u64 j = i;
    for (u64 t = 0; t < MAXN; t++) { if (j == 0) break; s32 pf = a[2 * (j - 1)], ps = a[2 * (j - 1) + 1];
      if (!(kf < pf || (kf == pf && ks < ps))) break; a[2 * j] = pf; a[2 * j + 1] = ps; j--; }
    a[2 * j] = kf; a[2 * j + 1] = ks; }
}
#endif
#ifndef VF_REAL
/* std::set<NLSuffix> holds at most one element in these harnesses.  libstdc++'s recursive subtree copy / erase (_Rb_tree::_M_copy, _M_erase)
 * are replaced by their single-node versions (asserted): clone the node with the real NLSuffix copy constructor; destroy it with the real
 * NLSuffix destructor.  Node layout: _Rb_tree_node_base (32 bytes) followed by the value. */
struct rbn8 { u32 color; char *parent, *left, *right; };
char *_ZNSt8_Rb_treeIN2mp8NLSuffixES1_St9_IdentityIS1_ESt4lessIS1_ESaIS1_EE7_M_copyILb0ENS7_11_Alloc_nodeEEEPSt13_Rb_tree_nodeIS1_ESC_PSt18_Rb_tree_node_baseRT0_(char *self, char *x, char *p, char *gen) {
  struct rbn8 *xs = (struct rbn8 *)x;
  VF_ASSERT(xs->left == 0 && xs->right == 0, "model bound: std::set<NLSuffix> with one element");
  char *n = vf_malloc(32 + 96);
  _ZN2mp8NLSuffixC2ERKS0_(n + 32, x + 32);
  struct rbn8 *ns = (struct rbn8 *)n; ns->color = xs->color; ns->parent = p; ns->left = 0; ns->right = 0;
  return n;
}
void _ZNSt8_Rb_treeIN2mp8NLSuffixES1_St9_IdentityIS1_ESt4lessIS1_ESaIS1_EE8_M_eraseEPSt13_Rb_tree_nodeIS1_E(char *self, char *x) {
  if (!x) return;
  struct rbn8 *xs = (struct rbn8 *)x;
  VF_ASSERT(xs->left == 0 && xs->right == 0, "model bound: std::set<NLSuffix> with one element");
  _ZN2mp8NLSuffixD2Ev(x + 32);
}
#endif
/* ---- model construction ---- */
static void mkmodel(int with_rows, int with_suffix) {
#ifdef NFIX
  n = NFIX;        /* enumerated shape: concrete sizes keep every allocation of the real code concrete */
#else
  n = (u32)vf_ndrange(1, MAXN);
#endif
  M.n = (s32)n;
  M.lb = (double *)vf_malloc(8 * n); M.ub = (double *)vf_malloc(8 * n);
  has_type = vf_ndbool(); has_c = vf_ndbool();
  M.type = has_type ? (s32 *)vf_malloc(4 * n) : 0; M.c = has_c ? (double *)vf_malloc(8 * n) : 0;
  for (u32 i = 0; i < MAXN; i++) { if (i >= n) break; M.lb[i] = vf_nddouble(); M.ub[i] = vf_nddouble(); if (has_type) M.type[i] = (s32)vf_ndrange(0, 1); if (has_c) { M.c[i] = vf_nddouble(); VF_REQUIRE(!VF_ISNAN(M.c[i])); } }
  M.qfmt = (s32)vf_ndrange(1, 2);
#ifdef QFIX
  M.qnz = QFIX;
#else
  M.qnz = vf_ndrange(0, MAXQ);
#endif
  M.qstart = (u64 *)vf_malloc(8 * n); M.qindex = (s32 *)vf_malloc(4 * (M.qnz ? M.qnz : 1)); M.qval = (double *)vf_malloc(8 * (M.qnz ? M.qnz : 1));
  u64 prev = 0;
  for (u32 i = 0; i < MAXN; i++) { if (i >= n) break; u64 s = i ? vf_ndrange(0, MAXQ) : 0; VF_REQUIRE(s >= prev && s <= M.qnz); M.qstart[i] = s; prev = s; }
  for (u32 k = 0; k < MAXQ; k++) { if (k >= M.qnz) break; M.qindex[k] = (s32)vf_ndrange(0, n - 1); M.qval[k] = vf_nddouble(); }
  M.nrows = 0; M.anz = 0; M.nini = 0; M.sufkind = -1;
  if (with_rows) {
#ifdef RFIX
    M.nrows = RFIX; M.anz = AFIX;
#else
    M.nrows = (s32)vf_ndrange(1, 2); M.anz = vf_ndrange(0, MAXA);
#endif
    M.astart = (u64 *)vf_malloc(8 * (u32)M.nrows); M.aindex = (s32 *)vf_malloc(4 * (M.anz ? M.anz : 1)); M.aval = (double *)vf_malloc(8 * (M.anz ? M.anz : 1));
    M.astart[0] = 0; if (M.nrows == 2) { M.astart[1] = vf_ndrange(0, MAXA); VF_REQUIRE(M.astart[1] <= M.anz); }
    for (u32 k = 0; k < MAXA; k++) { if (k >= M.anz) break; M.aindex[k] = (s32)vf_ndrange(0, n - 1); M.aval[k] = vf_nddouble(); }
    M.nini = (s32)vf_ndrange(0, 2); M.ini_index = (s32 *)vf_malloc(8); M.ini_val = (double *)vf_malloc(16);
    for (u32 k = 0; k < 2; k++) { M.ini_index[k] = (s32)vf_ndrange(0, n - 1); M.ini_val[k] = vf_nddouble(); }
  }
  if (with_suffix) { M.sufkind = (s32)vf_ndrange(0, 7); M.sufvals = (double *)vf_malloc(8 * MAXN); for (u32 i = 0; i < MAXN; i++) { M.sufvals[i] = (double)(s32)vf_ndrange(0, 3); } }
  /* reference: variable j is nonlinear iff it takes part in a Hessian entry, as its column or as its index */
  for (u32 j = 0; j < MAXN; j++) nonlinear[j] = 0;
  for (u32 i = 0; i < MAXN; i++) { if (i >= n) break; u64 e = i + 1 < n ? M.qstart[i + 1] : M.qnz;
    for (u32 k = 0; k < MAXQ; k++) { if (k >= M.qnz) break; if (k >= M.qstart[i] && k < e) { nonlinear[i] = 1; nonlinear[M.qindex[k]] = 1; } } }
}
static int is_int(u32 j) { return has_type && M.type[j] != 0; }
static int is_bin(u32 j) { double l = M.lb[j]; return (l == 0.0) && M.ub[j] == 1.0; }
static u32 klass(u32 j) { if (nonlinear[j]) return is_int(j) ? 1 : 0; if (!is_int(j)) return 2; return is_bin(j) ? 3 : 4; }
static void reset(void) { nb_written = 0; feed_bad = 0; ini_cnt = 0; suf_cnt = 0; cs_written = 0; for (u32 j = 0; j < MAXN; j++) grad_seen[j] = 0; }
static void check_perm(void) {
  u32 cnt[5] = {0, 0, 0, 0, 0};
  for (u32 j = 0; j < MAXN; j++) { if (j >= n) break;
    VF_OBS(vperm[j]); VF_OBS(vpinv[j]);
    VF_ASSERT(vperm[j] >= 0 && (u32)vperm[j] < n && vpinv[j] >= 0 && (u32)vpinv[j] < n, "VPerm/VPermInv map into 0..n-1");
    if (vperm[j] >= 0 && (u32)vperm[j] < n) VF_ASSERT(vpinv[vperm[j]] == (s32)j, "VPermInv is the inverse of VPerm (so VPerm is a permutation)");
    cnt[klass(j)]++; }
  for (u32 p = 0; p + 1 < MAXN; p++) { if (p + 1 >= n) break;
    if (vpinv[p] >= 0 && (u32)vpinv[p] < n && vpinv[p + 1] >= 0 && (u32)vpinv[p + 1] < n)
      VF_ASSERT(klass((u32)vpinv[p]) <= klass((u32)vpinv[p + 1]), "NL order: nonlinear continuous, nonlinear integer, linear continuous, binary, integer"); }
  VF_OBS(hdr[1]); VF_OBS(hdr[2]); VF_OBS(hdr[3]); VF_OBS(hdr[4]);
  VF_ASSERT(hdr[0] == (s32)n, "header num_vars");
  VF_ASSERT(hdr[1] == (s32)(cnt[0] + cnt[1]), "header num_nl_vars_in_objs = size of the nonlinear block");
  VF_ASSERT(hdr[2] == (s32)cnt[1], "header num_nl_integer_vars_in_objs = number of nonlinear integer variables");
  VF_ASSERT(hdr[3] == (s32)cnt[3], "header num_linear_binary_vars = size of the binary block");
  VF_ASSERT(hdr[4] == (s32)cnt[4], "header num_linear_integer_vars = size of the linear integer block");
  VF_ASSERT(hdr[7] == 0 && hdr[6] == (M.qnz ? 1 : 0), "no nonlinear constraint variables; one nonlinear objective iff a Hessian is given");
}
/* permutation + header + bounds/gradient feeds */
void h_perm(void) {
  mkmodel(0, 0); reset();
  u32 rc = w_feeder((char *)&M, (char *)vperm, (char *)vpinv, (char *)hdr, 1 | 2);
  VF_ASSERT(rc == 0, "no exception");
  check_perm();
  VF_ASSERT(!feed_bad, "variable bounds and objective gradient follow the permutation");
  VF_ASSERT(nb_written == n, "bounds of every variable written");
  u32 supp = 0; for (u32 j = 0; j < MAXN; j++) { if (j >= n) break; int s = (has_c && M.c[j] != 0) || nonlinear[j]; supp += s; VF_ASSERT(grad_seen[j] == (u32)s, "gradient has an entry for exactly the variables of the objective"); }
  VF_ASSERT(hdr[5] == (s32)supp, "header num_obj_nonzeros");
  VF_WITNESS();
}
/* rows, column sizes, initial guesses */
void h_feeds(void) {
  mkmodel(1, 0); reset();
  u32 rc = w_feeder((char *)&M, (char *)vperm, (char *)vpinv, (char *)hdr, 4 | 8 | 16);
  VF_ASSERT(rc == 0, "no exception");
  VF_ASSERT(!feed_bad, "row coefficients, column sizes and initial guesses follow the permutation");
  VF_ASSERT(ini_cnt == (u32)M.nini, "all initial guesses written");
  VF_WITNESS();
}
#ifdef VF_WITH_SUFFIX
void h_suffix(void) {
  mkmodel(1, 1); reset();
  u32 rc = w_feeder((char *)&M, (char *)vperm, (char *)vpinv, (char *)hdr, 32);
  VF_ASSERT(rc == 0, "no exception");
  VF_ASSERT(!feed_bad, "suffix values follow their items");
  u32 len = (M.sufkind & 3) == 0 ? n : (M.sufkind & 3) == 1 ? (u32)M.nrows : 1, nz = 0;
  for (u32 i = 0; i < MAXN; i++) { if (i >= len) break; if (M.sufvals[i] != 0) nz++; }
  VF_ASSERT(suf_cnt == nz, "every non-zero suffix value written");
  VF_WITNESS();
}
#endif
/* solution side: values listed in NL order come back in the caller's order */
void h_primal(void) {
#ifdef NFIX
  n = NFIX;
#else
  n = (u32)vf_ndrange(1, MAXN);
#endif
  s32 *pinv = (s32 *)vf_malloc(4 * n); double *x = (double *)vf_malloc(8 * n); u32 seen[MAXN] = {0};
  for (u32 i = 0; i < MAXN; i++) { if (i >= n) break; pinv[i] = (s32)vf_ndrange(0, n - 1); VF_REQUIRE(!seen[pinv[i]]); seen[pinv[i]] = 1; }
  rd_n = (u32)vf_ndrange(0, n); rd_i = 0;
  for (u32 i = 0; i < MAXN; i++) rd_v[i] = vf_nddouble();
  u32 rc = w_primal(n, (char *)pinv, (char *)x);
  VF_ASSERT(rc == 0, "solution vector has num_vars entries");
  if (rc == 0) for (u32 i = 0; i < MAXN; i++) { if (i >= n) break; VF_OBS(vf_d2bits(x[pinv[i]]));
    if (i < rd_n) VF_ASSERT(same(x[pinv[i]], rd_v[i]), "value at NL position p is returned for original variable VPermInv(p)");
    else VF_ASSERT(same(x[pinv[i]], 0.0), "values not listed in the file are zero"); }
  VF_WITNESS();
}
