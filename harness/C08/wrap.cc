// C08 harness TU: the real easy-API feeder NLFeeder_Easy and solution handler SOLHandler_Easy (both local classes of nl-solver.cc,
// which is therefore #included), driven through checking writers/readers that are template parameters of the real feed functions.
#include "nl-solver.cc"
extern "C" {
void vf_w_bounds(int pos, double lb, double ub);
void vf_w_sparse(int what, int index, double value);   // what: 0 objective gradient, 1 constraint linear part, 2 primal initial guess, 4 int suffix, 5 dbl suffix
void vf_w_begin(int what, int n);
void vf_w_colsize(int pos, int size);
int vf_r_size(void); double vf_r_next(void);            // solution vector reader (template parameter of OnPrimalSolution)
}
namespace {
struct Feeder : mp::NLFeeder_Easy {
  using mp::NLFeeder_Easy::NLFeeder_Easy;
  int vp(int i) const { return VPerm(i); }
  int vpi(int i) const { return VPermInv(i); }
};
struct VBW { int pos = 0; void WriteLbUb(double l, double u) { vf_w_bounds(pos++, l, u); } };
struct SVW { int what; void Write(int i, double v) { vf_w_sparse(what, i, v); } };
struct SVWF { int what; SVW MakeVectorWriter(int n) { vf_w_begin(what, n); return SVW{what}; } };
struct CSW { int pos = 0; void Write(int s) { vf_w_colsize(pos++, s); } };
struct SufW { int what; void Write(int i, double v) { vf_w_sparse(what, i, v); } void Write(int i, int v) { vf_w_sparse(what, i, (double)v); } };
struct SWF { SufW StartIntSuffix(const char*, int kind, int n) { vf_w_begin(4 + 16 * kind, n); return SufW{4}; }
             SufW StartDblSuffix(const char*, int kind, int n) { vf_w_begin(5 + 16 * kind, n); return SufW{5}; } };
struct VecRd { int Size() { return vf_r_size(); } double ReadNext() { return vf_r_next(); } };
}
#define W extern "C" __attribute__((noinline))
struct Model { int n; const double* lb; const double* ub; const int* type; const double* c; int qfmt; unsigned long qnz; const unsigned long* qstart; const int* qindex; const double* qval;
               int nrows; unsigned long anz; const unsigned long* astart; const int* aindex; const double* aval; int nini; const int* ini_index; const double* ini_val;
               int sufkind; const double* sufvals; };
static void fill(mp::NLModel& m, const Model* d) {
  m.SetCols({d->n, d->lb, d->ub, d->type});
  m.SetLinearObjective(NLW2_ObjSenseMinimize, 0.0, d->c);
  if (d->qnz) m.SetHessian((NLW2_HessianFormat)d->qfmt, {d->n, NLW2_MatrixFormatRowwise, d->qnz, d->qstart, d->qindex, d->qval});
  if (d->nrows) m.SetRows(d->nrows, d->lb, d->ub, {d->nrows, NLW2_MatrixFormatRowwise, d->anz, d->astart, d->aindex, d->aval});
  if (d->nini) m.SetWarmstart({d->nini, d->ini_index, d->ini_val});
}
// out: vperm[n], vperminv[n], hdr[8] = num_vars, num_nl_vars_in_objs, num_nl_integer_vars_in_objs, num_linear_binary_vars, num_linear_integer_vars, num_obj_nonzeros, num_nl_objs, num_nl_vars_in_cons
W int w_feeder(const Model* d, int* vperm, int* vperminv, int* hdr, int feeds) {
  try {
    mp::NLModel m; fill(m, d);
#ifdef VF_WITH_SUFFIX
    if (d->sufkind >= 0) m.AddSuffix(mp::NLSuffix("s", d->sufkind, std::vector<double>(d->sufvals, d->sufvals + ((d->sufkind & 3) == 0 ? d->n : (d->sufkind & 3) == 1 ? d->nrows : 1))));
#endif
    NLW2_NLOptionsBasic_C o = NLW2_MakeNLOptionsBasic_C_Default();
    Feeder f(m, o);
    mp::NLModel::PreprocessData pd; f.ExportPreproData(pd);
    for (int i = 0; i < d->n; ++i) { vperm[i] = pd.vperm_[i]; vperminv[i] = pd.vperm_inv_[i]; }
    mp::NLHeader h = f.Header();
    hdr[0] = h.num_vars; hdr[1] = h.num_nl_vars_in_objs; hdr[2] = h.num_nl_integer_vars_in_objs; hdr[3] = h.num_linear_binary_vars; hdr[4] = h.num_linear_integer_vars;
    hdr[5] = h.num_obj_nonzeros; hdr[6] = h.num_nl_objs; hdr[7] = h.num_nl_vars_in_cons;
    if (feeds & 1) { VBW w; f.FeedVarBounds(w); }
    if (feeds & 2) { SVWF w{0}; f.FeedObjGradient(0, w); }
    if (feeds & 4) { SVWF w{2}; f.FeedInitialGuesses(w); }
    if (feeds & 8) { for (int i = 0; i < d->nrows; ++i) { SVWF w{1}; vf_w_begin(100 + i, 0); f.FeedLinearConExpr(i, w); } }
    if (feeds & 16) { CSW w; f.FeedColumnSizes(w); }
#ifdef VF_WITH_SUFFIX
    if (feeds & 32) { SWF w; f.FeedSuffixes(w); }
#endif
    return 0;
  } catch (...) { return 3; }
}
// solution side: the values a .sol file lists (in NL order) come back in the caller's order
W int w_primal(int n, const int* vperm_inv, double* x_out) {
  try {
    mp::NLHeader h = mp::NLHeader(); h.num_vars = n;
    mp::NLModel::PreprocessData pd; pd.vperm_inv_.assign(vperm_inv, vperm_inv + n); pd.vperm_.resize(n);
    mp::NLSolution sol; mp::SOLHandler_Easy sh(h, pd, sol);
    VecRd rd; sh.OnPrimalSolution(rd);
    if ((int)sol.x_.size() != n) return 1;
    for (int i = 0; i < n; ++i) x_out[i] = sol.x_[i];
    return 0;
  } catch (...) { return 3; }
}
