from vfeng import Unit, Harness
PROPERTY = 'C08'
EXT = ['_ZNSt8_Rb_treeIN2mp8NLSuffixES1_St9_IdentityIS1_ESt4lessIS1_ESaIS1_EE7_M_copyILb0ENS7_11_Alloc_nodeEEEPSt13_Rb_tree_nodeIS1_ESC_PSt18_Rb_tree_node_baseRT0_', '_ZNSt8_Rb_treeIN2mp8NLSuffixES1_St9_IdentityIS1_ESt4lessIS1_ESaIS1_EE8_M_eraseEPSt13_Rb_tree_nodeIS1_E', '_ZSt13__stable_sortIN9__gnu_cxx17__normal_iteratorIPSt4pairIiiESt6vectorIS3_SaIS3_EEEENS0_5__ops15_Iter_less_iterEEvT_SB_T0_', 'vf_w_bounds', 'vf_w_sparse', 'vf_w_begin', 'vf_w_colsize', 'vf_r_size', 'vf_r_next',
       '_ZSt18_Rb_tree_incrementPKSt18_Rb_tree_node_base', '_ZSt18_Rb_tree_incrementPSt18_Rb_tree_node_base', '_ZSt18_Rb_tree_decrementPSt18_Rb_tree_node_base',
       '_ZSt18_Rb_tree_decrementPKSt18_Rb_tree_node_base', '_ZSt29_Rb_tree_insert_and_rebalancebPSt18_Rb_tree_node_baseS0_RS_']
def units(tier):
    u = Unit('easy', 'wrap.cc', 'harness.c', externs=EXT, cxxflags=['-DVF_WITH_SUFFIX'], ll2c_args=['--inline-mem', '1024'])
    u.stub_undefined = True; u.tool_c = ['vf_rbtree.c']; u.cdefs = ['VF_WITH_SUFFIX']
    return [u]
def harnesses(tier):
    N, Q = (3, 2) if tier == 'quick' else (4, 3)
    A = ['model: 1..%d columns with arbitrary bounds (any double), optional integrality flags, optional linear objective (no NaN coefficient), Hessian in either declared format with 0..%d entries: any column starts (non-decreasing) and any indices, i.e. diagonal-only, off-diagonal-only, duplicate and column-only patterns' % (N, Q),
         'reference: a variable is nonlinear iff it takes part in a Hessian entry as its column or its index; binary = integer with bounds [0,1]',
         'std::stable_sort on vector<pair<int,int>> (libstdc++ internal __stable_sort) modelled by a stable insertion sort with the same comparison', 'writers/readers are template parameters of the real feed functions (checking recorders); std::set primitives (_Rb_tree_increment/insert_and_rebalance) modelled as unbalanced BST operations (tools/vf_rbtree.c)']
    D = ['MAXN=%d' % N, 'MAXQ=%d' % Q]
    hs = []
    def mk(nm, c, n, q, r=None, a=None, to=600, tv=0, kf=()):
        d = D + ['NFIX=%d' % n, 'QFIX=%d' % q] + ([] if r is None else ['RFIX=%d' % r, 'AFIX=%d' % a])
        h = Harness(nm, 'easy', unwind=max(N, Q, 3) + 2, timeout=to if tier == 'quick' else 3600, mem_gb=24, defines=d, tv_cases=tv, known=list(kf),
                    bounds='%d columns, %d Hessian entries%s (enumerated shape), all values/indices/starts symbolic, unwind %d' % (n, q, '' if r is None else ', %d rows with %d matrix entries' % (r, a), max(N, Q, 3) + 2),
                    assumptions=A, claims=c, flags=['--object-bits', '10'])
        ER = '_ZNSt8_Rb_treeIN2mp8NLSuffixES1_St9_IdentityIS1_ESt4lessIS1_ESaIS1_EE8_M_eraseEPSt13_Rb_tree_nodeIS1_E'
        CP = '_ZNSt8_Rb_treeIN2mp8NLSuffixES1_St9_IdentityIS1_ESt4lessIS1_ESaIS1_EE7_M_copyILb0ENS7_11_Alloc_nodeEEEPSt13_Rb_tree_nodeIS1_ESC_PSt18_Rb_tree_node_baseRT0_'
        h.unwindset = ['vf_c_strlen.0:20']      # std::set<NLSuffix> holds <= 1 element: recursion depth of the tree walkers (asserted)
        h.label = '%s[n%d,q%d%s]' % (nm, n, q, '' if r is None else ',r%d,a%d' % (r, a)); hs.append(h); return h
    for n in range(1, N + 1):
        for q in range(0, Q + 1):
            mk('h_perm', 'VPerm is a permutation with inverse VPermInv; NL class order; header class counts = block sizes; bounds and objective gradient written at permuted positions', n, q, kf=['nl_vars_hessian'])
        mk('h_primal', 'SOLHandler_Easy::OnPrimalSolution returns x in the caller order: x_user[VPermInv(p)] = x_nl[p]', n, 0)
        for (r, a) in ((1, 2), (2, 3)) if tier == 'quick' else ((1, 0), (1, 2), (2, 1), (2, 3)):
            mk('h_feeds', 'row coefficients, column sizes, initial guesses written at permuted positions', n, min(1, Q), r, a)
        if tier != 'quick':      # FeedSuffixes copies the std::set<NLSuffix> (strings, vectors: variable-size block moves): > 24 GB / 10 min even for one column
            hh = mk('h_suffix', 'suffix values: variable suffixes (int and real) at permuted positions, other kinds unpermuted', n, min(1, Q), 1, 1); hh.mem_gb = 48
    hs[0].tv_cases = 300
    return hs
