/* C02 (token layer): TextReader reads are memory safe, range checked and decode exactly the decimal text. */
#include "vf_harness.h"
#ifndef MAXLEN
#define MAXLEN 12
#endif
struct out { s64 ival; double dval; s64 consumed; s64 soff; u64 slen; s32 line, col; };
static char *buf; static u32 n, pos;
static int sp(u8 c) { return c == ' ' || (c >= 9 && c <= 13); }
static s32 err_line, err_col;
#ifndef VF_REAL
/* ReadError::init(filename, line, column, format, args): message formatting is not the subject; line/column are recorded */
void _ZN2mp9ReadError4initEN3fmt15BasicCStringRefIcEEiiS3_NS1_7ArgListE(char *self, char *fn, u32 line, u32 col, char *fmt, char *args) { err_line = (s32)line; err_col = (s32)col; }
#define ERRLINE(o) err_line
#define ERRCOL(o) err_col
#else
#define ERRLINE(o) (o)->line
#define ERRCOL(o) (o)->col
#endif
#ifndef VF_REAL
void _ZN3fmt14BasicFormatterIcNS_12ArgFormatterIcEEE6formatENS_15BasicCStringRefIcEE(char *self, char *fmt) { }   /* error-message text: not the subject */
#endif
/* symbolic text of length n <= MAXLEN followed by the NUL sentinel, which is the LAST byte of its block:
 * any read past the sentinel leaves the object */
static void mkbuf(void) {
  n = (u32)vf_nd64(); VF_REQUIRE(n <= MAXLEN);
  char *blk = vf_malloc(MAXLEN + 1);
  for (u32 i = 0; i < MAXLEN + 1; i++) blk[i] = (char)vf_nd8();
  blk[MAXLEN] = 0; buf = blk + (MAXLEN - n);
  pos = (u32)vf_nd64(); VF_REQUIRE(pos <= n);
#ifdef DIGITS_ONLY
  for (u32 i = 0; i < MAXLEN; i++) { if (i >= n) break; VF_REQUIRE(buf[i] >= '0' && buf[i] <= '9'); }
  VF_REQUIRE(pos == 0);
#endif
}
static void check_err(struct out *o) { VF_ASSERT(ERRLINE(o) >= 1 && ERRCOL(o) >= 1, "a read error is located (line >= 1, column >= 1)"); }
/* reference decimal parser: optional sign (if sg), digits; returns 0 = no number, 1 = ok (*v exact, saturated at 2^63-1), sets *end */
static int refint(u32 p, int sg, u64 *mag, int *neg, u32 *end) {
  *neg = 0;
  if (sg && p < n && (buf[p] == '+' || buf[p] == '-')) { *neg = buf[p] == '-'; p++; }
  if (!(p < n && buf[p] >= '0' && buf[p] <= '9')) { *end = p; return 0; }
  u128 a = 0;     /* <= 20 digits: no overflow in 128 bits */
  for (u32 i = 0; i <= MAXLEN; i++) { if (!(p < n && buf[p] >= '0' && buf[p] <= '9')) break; a = (a << 3) + (a << 1) + (u128)(buf[p] - '0'); p++; }
  *mag = a > (u128)0x7fffffffffffffffULL ? 0x7fffffffffffffffULL : (u64)a; *end = p; return 1;
}
static u32 skipsp(u32 p) { for (u32 i = 0; i <= MAXLEN; i++) { if (!(p < n && sp((u8)buf[p]) && buf[p] != '\n')) break; p++; } return p; }
#define INTH(NAME, CALL, SG, MAXV, MINMAG) \
void NAME(void) { mkbuf(); struct out o; o.line = o.col = 0; \
  u32 rc = CALL(buf, n, pos, (char *)&o); VF_OBS(rc); \
  VF_ASSERT(rc <= 1, "only ReadError may be thrown"); \
  u32 p = skipsp(pos), e; u64 mag = 0; int neg = 0; int has = refint(p, SG, &mag, &neg, &e); \
  int fits = has && (neg ? mag <= (u64)(MINMAG) : mag <= (u64)(MAXV)); \
  VF_ASSERT((rc == 0) == (fits != 0), "integer accepted iff it is a decimal number representable in the target type"); \
  if (rc == 0) { VF_OBS(o.ival); VF_OBS(o.consumed); VF_ASSERT(o.consumed == (s64)e, "cursor stops right after the digits"); \
    VF_ASSERT(o.ival == (neg ? -(s64)mag : (s64)mag), "value equals the decimal text"); } else check_err(&o); \
  VF_WITNESS(); }
INTH(h_read_uint, w_read_uint, 0, 0x7fffffffULL, 0)
INTH(h_read_int, w_read_int, 1, 0x7fffffffULL, 0x80000000ULL)
INTH(h_read_short, w_read_short, 1, 0x7fffULL, 0x8000ULL)
INTH(h_read_long, w_read_long, 1, 0x7fffffffffffffffULL - 1, 0x7fffffffffffffffULL - 1)
void h_read_name(void) { mkbuf(); struct out o; o.line = o.col = 0;
  u32 rc = w_read_name(buf, n, pos, (char *)&o); VF_OBS(rc); VF_ASSERT(rc <= 1, "only ReadError may be thrown");
  u32 p = skipsp(pos); int ok = p < n && buf[p] != '\n' && buf[p] != 0;
  VF_ASSERT((rc == 0) == (ok != 0), "a name is read iff a non-newline character follows");
  if (rc == 0) { u32 e = p + 1; for (u32 i = 0; i <= MAXLEN; i++) { if (!(e < n && !sp((u8)buf[e]) && buf[e] != 0)) break; e++; }
    VF_OBS(o.soff); VF_OBS(o.slen); VF_ASSERT(o.soff == (s64)p && o.slen == (u64)(e - p) && o.consumed == (s64)e, "name = maximal run of non-space characters"); } else check_err(&o);
  VF_WITNESS(); }
void h_read_eol(void) { mkbuf(); struct out o; o.line = o.col = 0;
  u32 rc = w_read_eol(buf, n, pos, (char *)&o); VF_OBS(rc); VF_ASSERT(rc <= 1, "only ReadError may be thrown");
  u32 e = pos; int found = 0; for (u32 i = 0; i <= MAXLEN; i++) { if (e >= n || buf[e] == 0) break; if (buf[e] == '\n') { found = 1; break; } e++; }
  VF_ASSERT((rc == 0) == (found != 0), "ReadTillEndOfLine succeeds iff a newline follows before the end");
  if (rc == 0) VF_ASSERT(o.consumed == (s64)e + 1, "cursor right after the newline"); else check_err(&o);
  VF_WITNESS(); }
void h_read_string(void) { mkbuf(); struct out o; o.line = o.col = 0;
  u32 rc = w_read_string(buf, n, pos, (char *)&o); VF_OBS(rc); VF_ASSERT(rc <= 1, "only ReadError may be thrown");
  if (rc == 0) { VF_OBS(o.slen); VF_OBS(o.consumed);
    VF_ASSERT(o.consumed >= 1 && o.consumed <= (s64)n, "cursor inside the input");
    VF_ASSERT(buf[o.consumed - 1] == '\n', "a string literal is terminated by a newline");
    if (o.slen) VF_ASSERT(o.soff >= 0 && o.soff + (s64)o.slen == o.consumed - 1, "the string is exactly the announced number of bytes before the newline, inside the input"); }
  else check_err(&o);
  VF_WITNESS(); }
void h_read_double(void) { mkbuf(); struct out o; o.line = o.col = 0;
  u32 rc = w_read_double(buf, n, pos, (char *)&o); VF_OBS(rc); VF_ASSERT(rc <= 1, "only ReadError may be thrown");
  if (rc == 0) VF_ASSERT(o.consumed > (s64)skipsp(pos) && o.consumed <= (s64)n, "ReadDouble consumes at least one character, inside the input"); else check_err(&o);
  VF_WITNESS(); }

/* ---- binary token layer: reads are whole items inside [pos, n), native byte order; short input => BinaryReadError, nothing read past the end ---- */
#ifndef BINOP
#define BINOP 0
#endif
void h_bin(void) { mkbuf(); struct out o; o.line = o.col = 0; o.ival = 0; o.dval = 0; o.slen = 0; o.soff = 0;
  u32 rc = w_bin(buf, n, pos, BINOP, (char *)&o); VF_OBS(rc); VF_ASSERT(rc <= 1, "only a read error may be thrown");
  u32 need = BINOP == 2 ? 2 : (BINOP == 3 || BINOP == 4) ? 8 : 4;
  u64 raw = 0; for (u32 b = 0; b < 8; b++) { if (b < need && pos + b < n) raw |= (u64)(u8)buf[pos + b] << (8 * b); }
  int enough = pos + need <= n;
  if (BINOP <= 4) {
    int neg = BINOP == 1 && enough && (s32)(u32)raw < 0;
    VF_ASSERT((rc == 0) == (enough && !neg), "binary item read iff all of its bytes are inside the input (and ReadUInt is non-negative)");
    if (rc == 0) { VF_ASSERT(o.consumed == (s64)(pos + need), "cursor right after the item");
      if (BINOP == 0 || BINOP == 1) VF_ASSERT(o.ival == (s64)(s32)(u32)raw, "value = the 4 bytes in native order");
      if (BINOP == 2) VF_ASSERT(o.ival == (s64)(s16)(u16)raw, "value = the 2 bytes in native order");
      if (BINOP == 3) VF_ASSERT(o.ival == (s64)raw, "value = the 8 bytes in native order");
      if (BINOP == 4) VF_ASSERT(vf_d2bits(o.dval) == raw, "double = the 8 bytes in native order"); }
  } else {
    s32 len = (s32)(u32)raw;
    int ok = enough && len >= 0 && (u64)pos + 4 + (u64)(u32)len <= n;
    VF_ASSERT((rc == 0) == (ok != 0), "string read iff its length field and all announced bytes are inside the input");
    if (rc == 0) { VF_ASSERT(o.slen == (u64)(u32)len && o.consumed == (s64)(pos + 4 + (u32)len), "string length and cursor");
      if (len) VF_ASSERT(o.soff == (s64)(pos + 4), "string bytes start right after the length field"); }
  }
  VF_WITNESS(); }

/* ---- header: the ten header lines in their full form, every count a symbolic decimal digit at a fixed position (concrete skeleton keeps
 * the cursor concrete); each NLHeader field must be the digit the NL format puts at that place ---- */
/* optional fields (ranges, eqns, logical cons; the four complementarity counts; nl vars in both; arithmetic kind, flags) carry concrete
 * distinct digits: a symbolic character there would make "is the optional number present" a symbolic decision and with it the cursor */
static const char HSKEL[] = "g3 1 1 0\n # # # 4 5 6\n # # 1 2 3 4\n # #\n # # 7\n # # 1 5\n # # # # #\n # #\n # #\n # # # # #\n";
void h_header(void) {
  u32 L = sizeof HSKEL - 1; char *blk = vf_malloc(L + 1); u32 dv[40]; u32 nd = 0;
  for (u32 i = 0; i < sizeof HSKEL; i++) { char c = HSKEL[i];
    if (c == '#') { u32 d = (u32)vf_ndrange(0, 9); dv[nd++] = d; blk[i] = (char)('0' + d); } else { blk[i] = c; if (i > 8 && c >= '0' && c <= '9') dv[nd++] = (u32)(c - '0'); } }
  s64 out[48]; for (u32 i = 0; i < 48; i++) out[i] = -777;
  u32 rc = w_read_header(blk, L, (char *)out);
  VF_OBS(rc);
  VF_ASSERT(rc == 0, "a well-formed header is accepted");
  if (rc != 0) return;
  VF_ASSERT(out[0] == 0 && out[1] == 3 && out[2] == 1 && out[3] == 1 && out[4] == 0, "format and AMPL options");
  /* expected field values in NL header order; position 13 (num_compl_conds) is reported as the sum with num_nl_compl_conds */
  u32 k = 0;
  for (u32 f = 5; f < 40; f++) { s64 expect = dv[k];
    if (f == 13) expect = dv[k] + dv[k + 1];
    VF_OBS(out[f]);
    VF_ASSERT(out[f] == expect, "header field differs from the number at its place in the header line");
    k++; }
  VF_ASSERT(k == nd, "all header numbers consumed");
  VF_ASSERT(out[40] == (s64)L, "cursor at the end of the header");
  VF_WITNESS();
}
