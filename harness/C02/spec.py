from vfeng import Unit, Harness
PROPERTY = 'C02'
def units(tier):
    u = Unit('token', 'wrap.cc', 'harness.c', externs=['strtod', 'strtod_l', 'newlocale', 'freelocale', '__errno_location', '_ZN3fmt14BasicFormatterIcNS_12ArgFormatterIcEEE6formatENS_15BasicCStringRefIcEE', '_ZN2mp9ReadError4initEN3fmt15BasicCStringRefIcEEiiS3_NS1_7ArgListE'],
             extra_repo_cc=['src/format.cc', 'src/os.cc', 'src/posix.cc', 'src/expr-info.cc'])
    u.stub_undefined = True; u.tool_c = ['vf_file.c']
    EXTS = ['vf_tk_char', 'vf_tk_uint', 'vf_tk_int', 'vf_tk_double', 'vf_tk_name', 'vf_tk_string', 'vf_tk_eol', 'vf_tk_iseof', 'vf_tk_error', 'vf_cb']
    us = Unit('seg', 'wrap_seg.cc', 'harness_seg.c', externs=EXTS, extra_repo_cc=['src/expr-info.cc'], ll2c_args=['--inline-mem', '1024'])
    us.stub_undefined = True; us.tv = False
    return [u, us]
def harnesses(tier):
    L = 12 if tier == 'quick' else 20
    A = ['input = arbitrary bytes (incl. NUL) of length 0..%d followed by the NUL sentinel which is the last byte of its block; cursor anywhere in [0, n]' % L,
         'strtod/strtod_l: end-pointer-exact model (tools/vf_file.c); isspace = C locale; ReadError::init (formatting of the error text) is a stub that records line and column']
    hs = []
    for n, c, kf, extra in [
        ('h_read_uint', 'TextReader::ReadUInt: accepted iff decimal <= INT_MAX, value = decimal text, cursor after digits; else located ReadError', ['int_wrap'], []),
        ('h_read_int', 'ReadInt<int>: sign handling, accepted iff representable', ['int_wrap'], []),
        ('h_read_short', 'ReadInt<short>', ['int_wrap'], []), ('h_read_long', 'ReadInt<long>', [], []),
        ('h_read_name', 'ReadName: maximal run of non-space characters', [], []), ('h_read_eol', 'ReadTillEndOfLine', [], []),
        ('h_read_string', 'ReadString (h<len>:<bytes>\\n): announced length bytes inside the input, newline terminated', [], []),
        ('h_read_double', 'ReadDouble: consumes a number inside the input or reports a located error', [], [])]:
        hs.append(Harness(n, 'token', unwind=L + 3, timeout=900 if tier == 'quick' else 3600, mem_gb=44, bounds='input <= %d bytes' % L, claims=c, assumptions=A,
                          defines=['MAXLEN=%d' % L] + extra, known=kf, tv_cases=1500, flags=['--object-bits', '12'], backend='cadical' if 'int' in n or 'long' in n or 'short' in n else 'sat'))
    for op, nm in ((0, 'int'), (1, 'uint'), (2, 'short'), (3, 'long'), (4, 'double'), (5, 'string')):
        h = Harness('h_bin', 'token', unwind=L + 3, timeout=600 if tier == 'quick' else 3600, mem_gb=24, bounds='input <= %d bytes, any cursor' % L, assumptions=A[:1], defines=['MAXLEN=%d' % L, 'BINOP=%d' % op], tv_cases=300, flags=['--object-bits', '12'],
                    claims='BinaryReader::%s: read iff the whole item lies inside the input, value = the bytes in native order, BinaryReadError otherwise, nothing read past the end' % nm)
        h.label = 'h_bin[%s]' % nm; hs.append(h)
    hh = Harness('h_header', 'token', unwind=16, timeout=300 if tier == 'quick' else 2400, mem_gb=24, bounds='full-form text header, the 25 mandatory counts symbolic decimal digits, the 10 optional ones concrete distinct digits', assumptions=['header skeleton (line structure, spaces, AMPL options 3 1 1 0, digits of the optional fields) concrete; 25 mandatory counts symbolic digits'], tv_cases=50, flags=['--object-bits', '12'], unwindset=['h_header.0:90', 'h_header.1:50'],
                 claims='TextReader::ReadHeader: every NLHeader field receives the number the NL format puts at its place (num_compl_conds = sum of the two complementarity counts), cursor ends after the tenth line')
    if tier != 'quick': hs.append(hh)      # > 5 min: the optional-number tests keep symbolic execution busy even with concrete optional digits
    SH = {1: 'C b', 2: 'b L', 3: 'O b', 4: 'V b', 5: 'b F', 6: 'b J', 7: 'G b', 8: 'b r', 9: 'k b', 10: 'b x', 11: 'b d', 12: 'S0 b', 13: 'b S5', 14: 'b S2', 15: 'b S7', 16: 'V C b', 17: 'b J r', 18: 'C(sum3) b', 19: 'b C(min3)', 20: 'C(call2) b', 21: 'b C(plterm2)', 22: 'C(if) b', 23: 'b L(or)'}
    AS = ['file = token script of the enumerated segment sequence (token kinds and read positions concrete); every index, count that does not change the layout, sense and number symbolic (31-bit / any double); header: 2 variables, 2 algebraic constraints, 0..3 objectives / logical constraints / functions, 0..2 common expressions (symbolic)',
          'token layer = symbolic reader with the contract decided by the token harnesses above; expressions: a reference, a number, one unary / relational operator over them, a sum / min of 3 references, a call with 2 arguments, a piecewise-linear term with 2 breakpoints, if-then-else, logical or (one level)']
    for k in sorted(SH):
        if tier == 'quick' and k >= 18: continue      # one-level iterated / call / PL / if / or expressions: 5-10 min each, thorough tier
        h = Harness('h_segments', 'seg', unwind=10, timeout=300 if tier == 'quick' else 1200, mem_gb=16, defines=['SHAPE=%d' % k], tv_cases=0, bounds='segments %s' % SH[k], assumptions=AS, flags=['--object-bits', '10'],
                    claims='NLReader::Read: handler receives exactly the items of the file, in order, every index within the header range; out-of-range index/count <=> read error')
        h.label = 'h_segments[%s]' % SH[k].replace(' ', ''); hs.append(h)
    return hs
