from vfeng import Unit, Harness
PROPERTY = 'C02'
def units(tier):
    u = Unit('token', 'wrap.cc', 'harness.c', externs=['strtod', 'strtod_l', 'newlocale', 'freelocale', '__errno_location', '_ZN3fmt14BasicFormatterIcNS_12ArgFormatterIcEEE6formatENS_15BasicCStringRefIcEE', '_ZN2mp9ReadError4initEN3fmt15BasicCStringRefIcEEiiS3_NS1_7ArgListE'],
             extra_repo_cc=['src/format.cc', 'src/os.cc', 'src/posix.cc', 'src/expr-info.cc'])
    u.stub_undefined = True; u.tool_c = ['vf_file.c']
    return [u]
def harnesses(tier):
    L = 12 if tier == 'quick' else 20
    A = ['input = arbitrary bytes (incl. NUL) of length 0..%d followed by the NUL sentinel which is the last byte of its block; cursor anywhere in [0, n]' % L,
         'strtod/strtod_l: end-pointer-exact model (tools/vf_file.c); isspace = C locale; ReadError::init (formatting of the error text) is a stub that records line and column']
    hs = []
    for n, c, kf, extra in [
        ('h_read_uint', 'TextReader::ReadUInt: accepted iff decimal <= INT_MAX, value = decimal text, cursor after digits; else located ReadError', ['int_wrap'], []),
        ('h_read_int', 'ReadInt<int>: sign handling, accepted iff representable', ['int_wrap'], []),
        ('h_read_short', 'ReadInt<short>', ['int_wrap'], []), ('h_read_long', 'ReadInt<long>', [], []),
        ('h_read_name', 'ReadName: maximal run of non-space characters', [], []), ('h_read_eol', 'ReadTillEndOfLine', [], []),
        ('h_read_string', 'ReadString (h<len>:<bytes>\\n): announced length bytes inside the input, newline terminated', [], []),
        ('h_read_double', 'ReadDouble: consumes a number inside the input or reports a located error', [], [])]:
        hs.append(Harness(n, 'token', unwind=L + 3, timeout=900 if tier == 'quick' else 3600, mem_gb=44, bounds='input <= %d bytes' % L, claims=c, assumptions=A,
                          defines=['MAXLEN=%d' % L] + extra, known=kf, tv_cases=1500, flags=['--object-bits', '12'], backend='cadical' if 'int' in n or 'long' in n or 'short' in n else 'sat'))
    return hs
