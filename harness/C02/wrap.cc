// C02 harness TU (token layer): the real mp::internal::TextReader<> and BinaryReader<> on a harness buffer.
#include "nl-reader.cc"
using mp::internal::TextReader;
#define W extern "C" __attribute__((noinline))
struct Out { long long ival; double dval; long consumed; long soff; unsigned long slen; int line, col; };
#define RD(expr) \
  try { TextReader<> r(mp::NLStringRef(buf, len), "in"); { expr; } o->consumed = r.ptr() - buf; return 0; } \
  catch (const mp::ReadError& e) { o->line = e.line(); o->col = e.column(); return 1; } catch (...) { return 2; }
// pos: the reader first skips `pos` bytes with ReadChar so that the cursor can be anywhere
#define SKIP for (unsigned long i = 0; i < pos; ++i) r.ReadChar()
W int w_read_uint(const char* buf, unsigned long len, unsigned long pos, Out* o) { RD(SKIP; o->ival = r.ReadUInt()) }
W int w_read_int(const char* buf, unsigned long len, unsigned long pos, Out* o) { RD(SKIP; o->ival = r.ReadInt<int>()) }
W int w_read_short(const char* buf, unsigned long len, unsigned long pos, Out* o) { RD(SKIP; o->ival = r.ReadInt<short>()) }
W int w_read_long(const char* buf, unsigned long len, unsigned long pos, Out* o) { RD(SKIP; o->ival = r.ReadInt<long>()) }
W int w_read_double(const char* buf, unsigned long len, unsigned long pos, Out* o) { RD(SKIP; o->dval = r.ReadDouble()) }
W int w_read_name(const char* buf, unsigned long len, unsigned long pos, Out* o) { RD(SKIP; fmt::StringRef s = r.ReadName(); o->soff = s.data() - buf; o->slen = s.size()) }
W int w_read_string(const char* buf, unsigned long len, unsigned long pos, Out* o) { RD(SKIP; fmt::StringRef s = r.ReadString(); o->soff = s.data() ? s.data() - buf : -1; o->slen = s.size()) }
W int w_read_eol(const char* buf, unsigned long len, unsigned long pos, Out* o) { RD(SKIP; r.ReadTillEndOfLine()) }
// ---- binary token layer: BinaryReader<IdentityConverter> over the same kind of buffer; op: 0 ReadInt<int>, 1 ReadUInt, 2 ReadInt<short>, 3 ReadInt<long>, 4 ReadDouble, 5 ReadString
W int w_bin(const char* buf, unsigned long len, unsigned long pos, int op, Out* o) {
  try {
    TextReader<> t(mp::NLStringRef(buf, len), "in");
    mp::internal::BinaryReader<> r(t);
    for (unsigned long i = 0; i < pos; ++i) r.ReadChar();
    switch (op) {
      case 0: o->ival = r.ReadInt<int>(); break; case 1: o->ival = r.ReadUInt(); break; case 2: o->ival = r.ReadInt<short>(); break; case 3: o->ival = r.ReadInt<long>(); break;
      case 4: o->dval = r.ReadDouble(); break;
      default: { fmt::StringRef s = r.ReadString(); o->soff = s.data() ? s.data() - buf : -1; o->slen = s.size(); }
    }
    o->consumed = r.ptr() - buf; return 0;
  } catch (const mp::BinaryReadError& e) { o->line = 1; o->col = 1; return 1; } catch (const mp::ReadError& e) { o->line = e.line(); o->col = e.column(); return 1; } catch (...) { return 2; }
}
// ---- header: TextReader::ReadHeader; out[] in the order of the NL header lines
W int w_read_header(const char* buf, unsigned long len, long* out) {
  try {
    TextReader<> r(mp::NLStringRef(buf, len), "in"); mp::NLHeader h = mp::NLHeader();
    r.ReadHeader(h);
    int k = 0;
    out[k++] = h.format; out[k++] = h.num_ampl_options; out[k++] = h.ampl_options[0]; out[k++] = h.ampl_options[1]; out[k++] = h.ampl_options[2];
    out[k++] = h.num_vars; out[k++] = h.num_algebraic_cons; out[k++] = h.num_objs; out[k++] = h.num_ranges; out[k++] = h.num_eqns; out[k++] = h.num_logical_cons;
    out[k++] = h.num_nl_cons; out[k++] = h.num_nl_objs; out[k++] = h.num_compl_conds; out[k++] = h.num_nl_compl_conds; out[k++] = h.num_compl_dbl_ineqs; out[k++] = h.num_compl_vars_with_nz_lb;
    out[k++] = h.num_nl_net_cons; out[k++] = h.num_linear_net_cons;
    out[k++] = h.num_nl_vars_in_cons; out[k++] = h.num_nl_vars_in_objs; out[k++] = h.num_nl_vars_in_both;
    out[k++] = h.num_linear_net_vars; out[k++] = h.num_funcs; out[k++] = h.arith_kind; out[k++] = h.flags;
    out[k++] = h.num_linear_binary_vars; out[k++] = h.num_linear_integer_vars; out[k++] = h.num_nl_integer_vars_in_both; out[k++] = h.num_nl_integer_vars_in_cons; out[k++] = h.num_nl_integer_vars_in_objs;
    out[k++] = (long)h.num_con_nonzeros; out[k++] = (long)h.num_obj_nonzeros;
    out[k++] = h.max_con_name_len; out[k++] = h.max_var_name_len;
    out[k++] = h.num_common_exprs_in_both; out[k++] = h.num_common_exprs_in_cons; out[k++] = h.num_common_exprs_in_objs; out[k++] = h.num_common_exprs_in_single_cons; out[k++] = h.num_common_exprs_in_single_objs;
    out[k++] = r.ptr() - buf;
    return 0;
  } catch (const mp::ReadError& e) { return 1; } catch (...) { return 2; }
}
