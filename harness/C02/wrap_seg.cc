// C02 (segment layer) harness TU: the real NLReader<Reader, Handler>::Read over a symbolic token reader, with a checking handler that
// reports every index / count it is handed.
#include "mp/nl-reader.h"
#include "vf_symreader.h"
extern "C" { void vf_cb(int what, long a, long b, double d); }
enum { CB_OBJ = 1, CB_ACON, CB_LCON, CB_CEXPR_BEGIN, CB_CEXPR_END, CB_COMPL, CB_LINOBJ, CB_LINCON, CB_TERM, CB_VARBND, CB_CONBND, CB_INIVAL, CB_INIDUAL, CB_COLSIZE,
       CB_FUNC, CB_SUFFIX, CB_SUFVAL, CB_NUMBER, CB_VARREF, CB_CEXPRREF, CB_UNARY, CB_BINARY, CB_RELATIONAL, CB_CALL, CB_CALLARG, CB_END, CB_BOOL, CB_NOT, CB_BEGIN_ITER, CB_ARG, CB_END_ITER, CB_PL_BEGIN, CB_PL_SLOPE, CB_PL_BREAK, CB_PL_END, CB_IF, CB_BINLOGICAL };
struct CheckH : mp::NullNLHandler<int> {
  typedef int Expr; typedef int NumericExpr; typedef int LogicalExpr; typedef int CountExpr; typedef int Reference;
  void OnHeader(const mp::NLHeader&) {}
  bool NeedObj(int) const { return true; } int resulting_obj_index(int i) const { return i; }
  void OnObj(int i, mp::obj::Type t, int e) { vf_cb(CB_OBJ, i, (long)t, e); }
  void OnAlgebraicCon(int i, int e) { vf_cb(CB_ACON, i, e, 0); }
  void OnLogicalCon(int i, int e) { vf_cb(CB_LCON, i, e, 0); }
  struct Lin { void AddTerm(int v, double c) { vf_cb(CB_TERM, v, 0, c); } };
  typedef Lin LinearExprHandler; typedef Lin LinearObjHandler; typedef Lin LinearConHandler;
  Lin BeginCommonExpr(int i, int n) { vf_cb(CB_CEXPR_BEGIN, i, n, 0); return Lin(); }
  void EndCommonExpr(int i, int e, int pos) { vf_cb(CB_CEXPR_END, i, pos, e); }
  void OnComplementarity(int c, int v, mp::ComplInfo info) { vf_cb(CB_COMPL, c, v, 0); }
  Lin OnLinearObjExpr(int i, int n) { vf_cb(CB_LINOBJ, i, n, 0); return Lin(); }
  Lin OnLinearConExpr(int i, int n) { vf_cb(CB_LINCON, i, n, 0); return Lin(); }
  void OnVarBounds(int i, double l, double u) { vf_cb(CB_VARBND, i, 0, l); vf_cb(CB_VARBND, i, 1, u); }
  void OnConBounds(int i, double l, double u) { vf_cb(CB_CONBND, i, 0, l); vf_cb(CB_CONBND, i, 1, u); }
  void OnInitialValue(int i, double v) { vf_cb(CB_INIVAL, i, 0, v); }
  void OnInitialDualValue(int i, double v) { vf_cb(CB_INIDUAL, i, 0, v); }
  struct ColumnSizeHandler { void Add(int s) { vf_cb(CB_COLSIZE, s, 0, 0); } };
  ColumnSizeHandler OnColumnSizes() { return ColumnSizeHandler(); }
  void OnFunction(int i, fmt::StringRef name, int nargs, mp::func::Type t) { vf_cb(CB_FUNC, i, nargs, (double)(int)t); }
  struct Suf { void SetValue(int i, int v) { vf_cb(CB_SUFVAL, i, v, 0); } void SetValue(int i, double v) { vf_cb(CB_SUFVAL, i, 0, v); } };
  typedef Suf IntSuffixHandler; typedef Suf DblSuffixHandler;
  Suf OnIntSuffix(fmt::StringRef, mp::suf::Kind k, int n) { vf_cb(CB_SUFFIX, (long)k, n, 0); return Suf(); }
  Suf OnDblSuffix(fmt::StringRef, mp::suf::Kind k, int n) { vf_cb(CB_SUFFIX, (long)k, n, 1); return Suf(); }
  int OnNumber(double v) { vf_cb(CB_NUMBER, 0, 0, v); return 1; }
  int OnVariableRef(int i) { vf_cb(CB_VARREF, i, 0, 0); return 2; }
  int OnCommonExprRef(int i) { vf_cb(CB_CEXPRREF, i, 0, 0); return 3; }
  int OnUnary(mp::expr::Kind k, int a) { vf_cb(CB_UNARY, (long)k, a, 0); return 4; }
  int OnBinary(mp::expr::Kind k, int a, int b) { vf_cb(CB_BINARY, (long)k, a * 16 + b, 0); return 5; }
  int OnRelational(mp::expr::Kind k, int a, int b) { vf_cb(CB_RELATIONAL, (long)k, a * 16 + b, 0); return 6; }
  int OnBool(bool v) { vf_cb(CB_BOOL, v, 0, 0); return 7; }
  int OnNot(int a) { vf_cb(CB_NOT, a, 0, 0); return 8; }
  // iterated / call / piecewise-linear constructs: Begin(n), exactly n arguments, End
  struct Args { int tag; void AddArg(int e) { vf_cb(CB_ARG, tag, e, 0); } };
  typedef Args NumericArgHandler; typedef Args VarArgHandler; typedef Args CallArgHandler; typedef Args CountArgHandler; typedef Args LogicalArgHandler;
  Args BeginSum(int n) { vf_cb(CB_BEGIN_ITER, 1, n, 0); return Args{1}; } int EndSum(Args) { vf_cb(CB_END_ITER, 1, 0, 0); return 9; }
  Args BeginVarArg(mp::expr::Kind k, int n) { vf_cb(CB_BEGIN_ITER, 2, n, 0); return Args{2}; } int EndVarArg(Args) { vf_cb(CB_END_ITER, 2, 0, 0); return 10; }
  Args BeginCall(int f, int n) { vf_cb(CB_CALL, f, n, 0); return Args{3}; } int EndCall(Args) { vf_cb(CB_END_ITER, 3, 0, 0); return 11; }
  Args BeginCount(int n) { vf_cb(CB_BEGIN_ITER, 4, n, 0); return Args{4}; } int EndCount(Args) { vf_cb(CB_END_ITER, 4, 0, 0); return 12; }
  Args BeginIteratedLogical(mp::expr::Kind k, int n) { vf_cb(CB_BEGIN_ITER, 5, n, 0); return Args{5}; } int EndIteratedLogical(Args) { vf_cb(CB_END_ITER, 5, 0, 0); return 13; }
  struct PL { void AddSlope(double s) { vf_cb(CB_PL_SLOPE, 0, 0, s); } void AddBreakpoint(double b) { vf_cb(CB_PL_BREAK, 0, 0, b); } };
  typedef PL PLTermHandler;
  PL BeginPLTerm(int nb) { vf_cb(CB_PL_BEGIN, nb, 0, 0); return PL(); } int EndPLTerm(PL, int arg) { vf_cb(CB_PL_END, arg, 0, 0); return 14; }
  int OnIf(int c, int t, int e) { vf_cb(CB_IF, c, t * 16 + e, 0); return 15; }
  int OnBinaryLogical(mp::expr::Kind k, int a, int b) { vf_cb(CB_BINLOGICAL, (long)k, a * 16 + b, 0); return 16; }
  void EndInput() { vf_cb(CB_END, 0, 0, 0); }
};
#define W extern "C" __attribute__((noinline))
W int w_read_seg(int num_vars, int num_cons, int num_objs, int num_lcons, int num_funcs, int num_cexprs, int flags) {
  try {
    mp::NLHeader h = mp::NLHeader(); h.num_vars = num_vars; h.num_algebraic_cons = num_cons; h.num_objs = num_objs; h.num_logical_cons = num_lcons; h.num_funcs = num_funcs;
    h.num_common_exprs_in_both = num_cexprs;
    CheckH hnd; SymReader rd;
    mp::internal::NLReader<SymReader, CheckH>(rd, h, hnd, flags).Read();
    return 0;
  } catch (const VfReadError&) { return 1; } catch (...) { return 3; }
}
