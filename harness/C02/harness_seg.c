/* C02 (segment layer): the real NLReader::Read hands the handler exactly the items the file contains, every index inside the range the
 * header announces, and rejects a file with an out-of-range index / count with a read error.
 * A file is a token script: the KIND of every token (and with it every read position) is concrete, per enumerated shape; the VALUES
 * (indices, counts that do not change the layout, numbers) are symbolic.  The expected handler calls are written next to the tokens. */
#include "vf_harness.h"
#ifndef SHAPE
#define SHAPE 1
#endif
#define NVARS 2
#define NCONS 2
enum { T_CHAR, T_UINT, T_INT, T_DBL, T_NAME, T_EOL };
enum { CB_OBJ = 1, CB_ACON, CB_LCON, CB_CEXPR_BEGIN, CB_CEXPR_END, CB_COMPL, CB_LINOBJ, CB_LINCON, CB_TERM, CB_VARBND, CB_CONBND, CB_INIVAL, CB_INIDUAL, CB_COLSIZE,
       CB_FUNC, CB_SUFFIX, CB_SUFVAL, CB_NUMBER, CB_VARREF, CB_CEXPRREF, CB_UNARY, CB_BINARY, CB_RELATIONAL, CB_CALL, CB_CALLARG, CB_END, CB_BOOL, CB_NOT, CB_BEGIN_ITER, CB_ARG, CB_END_ITER, CB_PL_BEGIN, CB_PL_SLOPE, CB_PL_BREAK, CB_PL_END, CB_IF, CB_BINLOGICAL };
#define MAXT 64
#define MAXE 48
static struct { u32 kind; s64 iv; double dv; } tk[MAXT]; static u32 ntk;
static struct { u32 what; s64 a, b; double d; int chk_a, chk_b, chk_d; } ex[MAXE]; static u32 nex, iex;
static int expect_bad, cb_bad; static const char *cb_msg;
static u32 num_objs, num_lcons, num_funcs, num_cexprs;
u32 vf_tk_pos, vf_tk_err; u64 vf_tk_len; static char namebuf[4] = "f";
static double INF_, NINF_;
/* ---- script construction ---- */
static void t_char(char c) { tk[ntk].kind = T_CHAR; tk[ntk].iv = c; ntk++; }
static s64 t_uint_any(void) { s64 v = (s64)(vf_nd32() & 0x7fffffff); tk[ntk].kind = T_UINT; tk[ntk].iv = v; ntk++; return v; }
static s64 t_uint(s64 v) { tk[ntk].kind = T_UINT; tk[ntk].iv = v; ntk++; return v; }
static s64 t_index(s64 limit) { s64 v = t_uint_any(); if (v >= limit) expect_bad = 1; return v; }             /* must be < limit */
static s64 t_int_any(void) { s64 v = (s64)(s32)vf_nd32(); tk[ntk].kind = T_INT; tk[ntk].iv = v; ntk++; return v; }
static double t_dbl(void) { double d = vf_nddouble(); tk[ntk].kind = T_DBL; tk[ntk].dv = d; ntk++; return d; }
static void t_name(void) { tk[ntk].kind = T_NAME; ntk++; }
static void t_eol(void) { tk[ntk].kind = T_EOL; ntk++; }
static void e_(u32 what, s64 a, int ca, s64 b, int cb, double d, int cd) { if (expect_bad) return;      /* calls after the first bad index never happen */
  ex[nex].what = what; ex[nex].a = a; ex[nex].chk_a = ca; ex[nex].b = b; ex[nex].chk_b = cb; ex[nex].d = d; ex[nex].chk_d = cd; nex++; }
#define E_A(w, a) e_(w, a, 1, 0, 0, 0, 0)
#define E_AB(w, a, b) e_(w, a, 1, b, 1, 0, 0)
#define E_AD(w, a, d) e_(w, a, 1, 0, 0, d, 1)
#define E_ABD(w, a, b, d) e_(w, a, 1, b, 1, d, 1)
#define E_ANY(w) e_(w, 0, 0, 0, 0, 0, 0)
/* a reference "v <i>": variable or common expression */
static void s_ref(void) { t_char('v'); s64 i = t_index(NVARS + num_cexprs); t_eol(); if (i < NVARS) E_A(CB_VARREF, i); else E_A(CB_CEXPRREF, i - NVARS); }
static void s_num(void) { t_char('n'); double d = t_dbl(); t_eol(); E_AD(CB_NUMBER, 0, d); }
/* expressions with an announced number of arguments: sum / min of 3 references, call f(ref, number), count of two comparisons,
 * piecewise-linear term with 2 breakpoints, if-then-else, logical or */
static void s_sum(int op, int tag) { t_char('o'); t_uint(op); t_eol(); t_uint(3); t_eol(); E_AB(CB_BEGIN_ITER, tag, 3); for (u32 i = 0; i < 3; i++) { s_ref(); E_A(CB_ARG, tag); } E_A(CB_END_ITER, tag); }
static void s_call(void) { t_char('f'); s64 f = t_index(num_funcs); t_uint(2); t_eol(); E_AB(CB_CALL, f, 2); s_ref(); E_A(CB_ARG, 3); s_num(); E_A(CB_ARG, 3); E_A(CB_END_ITER, 3); }
static void s_rel(void) { t_char('o'); t_uint(22); t_eol(); s_ref(); s_num(); E_ANY(CB_RELATIONAL); }
static void s_pl(void) { t_char('o'); t_uint(64); t_eol(); t_uint(3); t_eol(); E_A(CB_PL_BEGIN, 2);
  for (u32 i = 0; i < 2; i++) { t_char('n'); double sl = t_dbl(); t_eol(); E_AD(CB_PL_SLOPE, 0, sl); t_char('n'); double br = t_dbl(); t_eol(); E_AD(CB_PL_BREAK, 0, br); }
  t_char('n'); double sl = t_dbl(); t_eol(); E_AD(CB_PL_SLOPE, 0, sl); t_char('v'); s64 i = t_index(NVARS + num_cexprs); t_eol(); if (i < NVARS) E_A(CB_VARREF, i); else E_A(CB_CEXPRREF, i - NVARS); E_ANY(CB_PL_END); }
static void s_if(void) { t_char('o'); t_uint(35); t_eol(); s_rel(); s_ref(); s_num(); E_ANY(CB_IF); }
static void s_or(void) { t_char('o'); t_uint(20); t_eol(); s_rel(); s_rel(); E_ANY(CB_BINLOGICAL); }
static void seg_Cx(int what) { t_char('C'); s64 i = t_index(NCONS); t_eol(); if (what == 0) s_sum(54, 1); else if (what == 1) s_sum(11, 2); else if (what == 2) s_call(); else if (what == 3) s_pl(); else s_if(); E_A(CB_ACON, i); }
static void seg_Lx(void) { t_char('L'); s64 i = t_index(num_lcons); t_eol(); s_or(); E_A(CB_LCON, i); }
static void seg_b(void) { t_char('b'); t_eol();
  for (u32 v = 0; v < NVARS; v++) { t_char(v == 0 ? '0' : '2'); double lo = t_dbl(); double hi = INF_; if (v == 0) hi = t_dbl(); t_eol(); E_ABD(CB_VARBND, v, 0, lo); E_ABD(CB_VARBND, v, 1, hi); } }
static void seg_C(void) { t_char('C'); s64 i = t_index(NCONS); t_eol(); s_ref(); E_A(CB_ACON, i); }
static void seg_L(void) { t_char('L'); s64 i = t_index(num_lcons); t_eol(); t_char('o'); t_uint(22); t_eol(); s_ref(); s_num(); E_A(CB_RELATIONAL, 24 /* any kind value */); ex[nex - (expect_bad ? 0 : 1)].chk_a = 0; E_A(CB_LCON, i); }
static void seg_O(void) { t_char('O'); s64 i = t_index(num_objs); s64 ty = t_uint_any(); t_eol(); t_char('o'); t_uint(16); t_eol(); s_ref(); E_ANY(CB_UNARY); E_AB(CB_OBJ, i, ty != 0); }
static void seg_V(void) { t_char('V'); s64 i = t_uint_any(); if (i < NVARS || i >= NVARS + (s64)num_cexprs) expect_bad = 1; t_uint(1); s64 pos = t_uint_any(); t_eol();
  E_AB(CB_CEXPR_BEGIN, i - NVARS, 1); s64 v = t_index(NVARS); double c = t_dbl(); t_eol(); E_AD(CB_TERM, v, c); s_ref(); E_AB(CB_CEXPR_END, i - NVARS, pos); }
static void seg_F(void) { t_char('F'); s64 i = t_index(num_funcs); s64 ty = t_uint_any(); if (ty > 1) expect_bad = 1; s64 na = t_int_any(); t_name(); t_eol(); E_ABD(CB_FUNC, i, na, (double)ty); }
static void seg_J(void) { t_char('J'); s64 i = t_index(NCONS); t_uint(2); t_eol(); E_AB(CB_LINCON, i, 2);
  for (u32 t = 0; t < 2; t++) { s64 v = t_index(NVARS); double c = t_dbl(); t_eol(); E_AD(CB_TERM, v, c); } }
static void seg_G(void) { t_char('G'); s64 i = t_index(num_objs); t_uint(1); t_eol(); E_AB(CB_LINOBJ, i, 1); s64 v = t_index(NVARS); double c = t_dbl(); t_eol(); E_AD(CB_TERM, v, c); }
static void seg_r(void) { t_char('r'); t_eol();
  t_char('1'); double u = t_dbl(); t_eol(); E_ABD(CB_CONBND, 0, 0, NINF_); E_ABD(CB_CONBND, 0, 1, u);
  t_char('5'); t_int_any(); s64 v = t_uint_any(); if (v == 0 || v > NVARS) expect_bad = 1; t_eol(); E_AB(CB_COMPL, 1, v - 1); }
static void seg_k(void) { t_char('k'); t_uint(NVARS - 1); t_eol(); s64 s0 = t_uint_any(); t_eol(); E_A(CB_COLSIZE, s0); }
static void seg_x(void) { t_char('x'); t_uint(1); t_eol(); s64 i = t_index(NVARS); double v = t_dbl(); t_eol(); E_AD(CB_INIVAL, i, v); }
static void seg_d(void) { t_char('d'); t_uint(2); t_eol(); for (u32 t = 0; t < 2; t++) { s64 i = t_index(NCONS); double v = t_dbl(); t_eol(); E_AD(CB_INIDUAL, i, v); } }
static void seg_S(int kind) { t_char('S'); t_uint(kind); t_uint(1); t_name(); t_eol(); s64 nitems = (kind & 3) == 0 ? NVARS : (kind & 3) == 1 ? NCONS + (s64)num_lcons : (kind & 3) == 2 ? (s64)num_objs : 1;
  if (1 > nitems) expect_bad = 1;                       /* one value announced: needs at least one item */
  E_ABD(CB_SUFFIX, kind & 3, 1, (kind & 4) ? 1.0 : 0.0); s64 i = t_index(nitems);
  if (kind & 4) { double v = t_dbl(); t_eol(); E_AD(CB_SUFVAL, i, v); } else { s64 v = t_int_any(); t_eol(); E_AB(CB_SUFVAL, i, v); } }
/* ---- token source ---- */
static void error_point(void) { VF_ASSERT(expect_bad, "the reader raises a read error only for a file with an out-of-range index/count"); VF_REQUIRE(0); }
static int take(u32 pos, u32 want) {
  vf_tk_err = 0;
  if (pos >= ntk) { vf_tk_pos = ntk + 1; if (want != T_CHAR) { VF_ASSERT(0, "reader reads past the end of a well-formed file"); VF_REQUIRE(0); } return 0; }
  u32 k = tk[pos].kind; if (k == T_INT && want == T_UINT) k = T_UINT;
  if (k != want && !(k == T_UINT && want == T_INT)) { VF_ASSERT(0, "reader asked for a token of another type than the NL format has at this position"); VF_REQUIRE(0); }
  vf_tk_pos = pos + 1; return 1;
}
u32 vf_tk_char(u32 pos) { return take(pos, T_CHAR) ? (u32)tk[pos].iv : 0; }
u32 vf_tk_uint(u32 pos) { if (!take(pos, T_UINT)) return 0; if (tk[pos].iv < 0) { error_point(); } return (u32)tk[pos].iv; }
u64 vf_tk_int(u32 pos, u32 width) { if (!take(pos, T_INT)) return 0; return (u64)tk[pos].iv; }
double vf_tk_double(u32 pos) { if (!take(pos, T_DBL)) return 0; return tk[pos].dv; }
char *vf_tk_name(u32 pos) { take(pos, T_NAME); vf_tk_len = 1; return namebuf; }
char *vf_tk_string(u32 pos) { VF_ASSERT(0, "no string literals in these files"); VF_REQUIRE(0); return 0; }
void vf_tk_eol(u32 pos) { take(pos, T_EOL); }
u32 vf_tk_iseof(u32 pos) { return pos > ntk; }
void vf_tk_error(u32 pos, char *msg) { error_point(); }
/* ---- handler calls, compared with the script in order ---- */
void vf_cb(u32 what, u64 a_, u64 b_, double d) {
  s64 a = (s64)a_, b = (s64)b_;
  if (cb_bad) return;
  if (iex >= nex) { cb_bad = 1; cb_msg = "more handler calls than the file has items"; return; }
  if (ex[iex].what != what) { cb_bad = 1; cb_msg = "handler call of another kind than the next item of the file"; }
  else if (ex[iex].chk_a && ex[iex].a != a) { cb_bad = 1; cb_msg = "index handed to the handler differs from the file"; }
  else if (ex[iex].chk_b && ex[iex].b != b) { cb_bad = 1; cb_msg = "count / second index handed to the handler differs from the file"; }
  else if (ex[iex].chk_d && vf_d2bits(ex[iex].d) != vf_d2bits(d)) { cb_bad = 1; cb_msg = "number handed to the handler differs from the file"; }
  /* range discipline, independently of the script */
  if (what == CB_VARREF || what == CB_TERM || what == CB_VARBND || what == CB_INIVAL) { if (!(a >= 0 && a < NVARS)) { cb_bad = 1; cb_msg = "variable index outside 0..num_vars-1 reaches the handler"; } }
  if (what == CB_ACON || what == CB_LINCON || what == CB_CONBND || what == CB_INIDUAL) { if (!(a >= 0 && a < NCONS)) { cb_bad = 1; cb_msg = "constraint index outside the header range reaches the handler"; } }
  if (what == CB_OBJ || what == CB_LINOBJ) { if (!(a >= 0 && a < (s64)num_objs)) { cb_bad = 1; cb_msg = "objective index outside the header range reaches the handler"; } }
  if (what == CB_COMPL) { if (!(a >= 0 && a < NCONS && b >= 0 && b < NVARS)) { cb_bad = 1; cb_msg = "complementarity indices outside the header ranges reach the handler"; } }
  iex++;
}
void h_segments(void) {
  INF_ = vf_bits2d(0x7ff0000000000000ULL); NINF_ = vf_bits2d(0xfff0000000000000ULL);
  num_objs = (u32)vf_ndrange(0, 3); num_lcons = (u32)vf_ndrange(0, 3); num_funcs = (u32)vf_ndrange(0, 3); num_cexprs = (u32)vf_ndrange(0, 2);
  ntk = 0; nex = 0; iex = 0; expect_bad = 0; cb_bad = 0;
  switch (SHAPE) {
    case 1: seg_C(); seg_b(); break;            case 2: seg_b(); seg_L(); break;          case 3: seg_O(); seg_b(); break;
    case 4: seg_V(); seg_b(); break;            case 5: seg_b(); seg_F(); break;          case 6: seg_b(); seg_J(); break;
    case 7: seg_G(); seg_b(); break;            case 8: seg_b(); seg_r(); break;          case 9: seg_k(); seg_b(); break;
    case 10: seg_b(); seg_x(); break;           case 11: seg_b(); seg_d(); break;         case 12: seg_S(0); seg_b(); break;
    case 13: seg_b(); seg_S(5); break;          case 14: seg_b(); seg_S(2); break;        case 15: seg_b(); seg_S(7); break;
    case 16: seg_V(); seg_C(); seg_b(); break;  case 17: seg_b(); seg_J(); seg_r(); break;
    case 18: seg_Cx(0); seg_b(); break;         case 19: seg_b(); seg_Cx(1); break;       case 20: seg_Cx(2); seg_b(); break;
    case 21: seg_b(); seg_Cx(3); break;         case 22: seg_Cx(4); seg_b(); break;       case 23: seg_b(); seg_Lx(); break;
    default: seg_b(); break;
  }
  E_ANY(CB_END);
  u32 rc = w_read_seg(NVARS, NCONS, num_objs, num_lcons, num_funcs, num_cexprs, 0);
  VF_OBS(rc); VF_OBS(iex); VF_OBS(cb_bad);
  VF_ASSERT(rc == 0 && !expect_bad, "a file with an out-of-range index/count is rejected with a read error");
  VF_ASSERT(!cb_bad, "handler receives exactly the items of the file: kinds, indices, counts, numbers, in file order, all inside the header ranges");
  VF_ASSERT(iex == nex, "every item of the file reaches the handler");
  VF_WITNESS();
}
