/* C04: values travel between original items and the solver's items intact. */
#include "vf_harness.h"
#ifndef VF_REAL
void _ZN3fmt14BasicFormatterIcNS_12ArgFormatterIcEEE6formatENS_15BasicCStringRefIcEE(char *self, char *fmt) { }
/* ValuePresolverImpl::Add(LinkRange): registration of the link entry in the presolver's chain (the chain is not the subject here) */
void vf_vp_add(char *self, char *link, u64 range) { }
#endif
static int finite_(double v) { return !VF_ISNAN(v) && v != vf_bits2d(0x7ff0000000000000ULL) && v != vf_bits2d(0xfff0000000000000ULL); }
/* ---- conflict rule of value nodes: a slot keeps the maximum among the non-zero values written to it; zero never overwrites */
void h_setnum(void) {
  u32 size = (u32)vf_ndrange(1, 3), alloc = (u32)vf_ndrange(0, 3), idx = (u32)vf_ndrange(0, 2); VF_REQUIRE(idx < size && alloc <= size);
  s32 a = (s32)vf_nd32(), b = (s32)vf_nd32(); double da = vf_nddouble(), db = vf_nddouble(); VF_REQUIRE(!VF_ISNAN(da) && !VF_ISNAN(db));
  s32 oi = 0, ns = 0; double od = 0;
  u32 rc = w_setnum(size, alloc, idx, (u32)a, (u32)b, da, db, (char *)&oi, (char *)&od, (char *)&ns);
  VF_ASSERT(rc == 0, "no exception");
  s32 ei = a == 0 ? b : (b == 0 ? a : (a > b ? a : b));
  double ed = da == 0.0 ? db : (db == 0.0 ? da : (da > db ? da : db));
  VF_OBS(oi); VF_OBS(vf_d2bits(od));
  VF_ASSERT(oi == ei, "integer slot: maximum among the non-zero values, independent of the order");
  VF_ASSERT(od == ed, "real slot: maximum among the non-zero values, independent of the order");
  VF_ASSERT((u32)ns >= idx + 1 && (u32)ns <= size, "node storage covers the written index and never exceeds the declared size");
  VF_WITNESS();
}
/* ---- cleaning before a transfer: whatever an earlier transfer left in the node, afterwards every declared slot is zero (history independence) */
void h_cleanup(void) {
#ifndef CSZ
#define CSZ 2
#define CAL 1
#endif
  u32 size = CSZ, alloc = CAL;      /* enumerated sizes: the real vector code then allocates concrete sizes */
  s32 vi[3], oi[3] = {7, 7, 7}, ni = -1, nd = -1; double vd[3], od[3] = {7, 7, 7};
  for (u32 i = 0; i < 3; i++) { vi[i] = (s32)vf_nd32(); vd[i] = vf_nddouble(); }
  u32 rc = w_cleanup(size, alloc, (char *)vi, (char *)vd, (char *)oi, (char *)od, (char *)&ni, (char *)&nd);
  VF_ASSERT(rc == 0, "no exception");
  VF_ASSERT((u32)ni == size && (u32)nd == size, "both value arrays have the declared size after cleaning");
  for (u32 i = 0; i < 3; i++) { if (i >= size) break; VF_OBS(oi[i]); VF_OBS(vf_d2bits(od[i])); VF_ASSERT(oi[i] == 0 && vf_d2bits(od[i]) == 0, "a value of an earlier transfer survives the cleaning of the node"); }
  VF_WITNESS();
}
/* ---- Copy<T>: exactly dest[b2 + k] = src[b1 + k], nothing else */
#define NN 3
void h_copy(void) {
  u32 n1 = (u32)vf_ndrange(1, NN), n2 = (u32)vf_ndrange(1, NN); s32 v1[NN], v2[NN], w2[NN]; double d1[NN], d2[NN], e2[NN];
  for (u32 i = 0; i < NN; i++) { v1[i] = (s32)vf_nd32(); v2[i] = w2[i] = (s32)vf_nd32(); d1[i] = vf_nddouble(); d2[i] = e2[i] = vf_nddouble(); }
  u32 b1 = (u32)vf_ndrange(0, NN), e1 = (u32)vf_ndrange(0, NN), b2 = (u32)vf_ndrange(0, NN);
  VF_REQUIRE(b1 <= e1 && e1 <= n1 && b2 + (e1 - b1) <= n2);       /* valid ranges of the two nodes */
  u32 rc = w_copy(n1, (char *)v1, (char *)d1, n2, (char *)v2, (char *)d2, b1, e1, b2);
  VF_ASSERT(rc == 0, "no exception");
  for (u32 i = 0; i < NN; i++) { if (i >= n2) break;
    if (i >= b2 && i < b2 + (e1 - b1)) { VF_ASSERT(v2[i] == v1[b1 + (i - b2)] && vf_d2bits(d2[i]) == vf_d2bits(d1[b1 + (i - b2)]), "copied slot = source slot"); }
    else VF_ASSERT(v2[i] == w2[i] && vf_d2bits(d2[i]) == vf_d2bits(e2[i]), "slots outside the destination range untouched"); }
  VF_WITNESS();
}
/* ---- range constraint  lb <= c0*x0 + c1*x1 <= ub  ->  equality with a slack variable, and the status mapping of its value link */
static u32 nvars_added, ncons_added; static double slk_lb, slk_ub, eq_rhs, eq_slk_coef; static s32 eq_kind; static u32 eq_nterms; static int eq_has_slk, eq_body_ok;
static double C0, C1;
void vf_mc_addvar(double l, double u) { nvars_added++; slk_lb = l; slk_ub = u; }
void vf_mc_addcon(u32 kind, u32 nterms, char *coefs, char *vars, double rhs) {
  ncons_added++; eq_kind = (s32)kind; eq_nterms = nterms; eq_rhs = rhs; eq_has_slk = 0; eq_body_ok = 1;
  for (u32 t = 0; t < 3; t++) { if (t >= nterms) break; double c = ((double *)coefs)[t]; s32 v = ((s32 *)vars)[t];
    if (v == 2) { eq_has_slk++; eq_slk_coef = c; } else if (v == 0) { if (c != C0) eq_body_ok = 0; } else if (v == 1) { if (c != C1) eq_body_ok = 0; } else eq_body_ok = 0; }
}
#ifndef WHAT
#define WHAT 0
#endif
enum { ST_NONE = 0, ST_BAS = 1, ST_SUP = 2, ST_LOW = 3, ST_UPP = 4, ST_EQU = 5, ST_BTW = 6 };
enum { IIS_NON = 0, IIS_LOW = 1, IIS_FIX = 2, IIS_UPP = 3 };
void h_range_slack(void) {
  /* enumerated data (concrete bounds and coefficient per instance keep every container size concrete); the status values are symbolic */
#ifndef RLB
#define RLB 1
#define RUB 5
#define RC0 2
#endif
  double lb = (double)(RLB), ub = (double)(RUB); C0 = (double)(RC0); C1 = 0.0;
  u32 in_con = (u32)vf_ndrange(0, 6), in_slk = (u32)vf_ndrange(0, WHAT == 1 ? 3 : 6);
  s32 out_con = -1, out_slk = -1, out_eq = -1; nvars_added = ncons_added = 0;
  u32 rc = w_range(lb, ub, C0, C1, WHAT, in_con, in_slk, (char *)&out_con, (char *)&out_slk, (char *)&out_eq);
  VF_ASSERT(rc == 0, "no exception");
  VF_ASSERT(nvars_added == 1 && ncons_added == 1 && eq_kind == 0, "a proper range becomes one equality with one new slack variable");
  VF_ASSERT(eq_nterms == 2 && eq_has_slk == 1 && eq_body_ok, "equality = original body + slack term");
  VF_ASSERT(eq_slk_coef == 1.0 || eq_slk_coef == -1.0, "slack enters with coefficient +-1");
  VF_ASSERT(slk_lb == 0.0 && slk_ub == ub - lb, "slack ranges over [0, ub - lb]");
  /* body value when the slack sits at its lower / upper bound, from the emitted equality  body + c*slk = rhs */
  double body_at_slk_low = eq_rhs, body_at_slk_upp = eq_slk_coef == 1.0 ? eq_rhs - slk_ub : eq_rhs + slk_ub;
  VF_ASSERT((body_at_slk_low == lb && body_at_slk_upp == ub) || (body_at_slk_low == ub && body_at_slk_upp == lb), "the slack's bounds correspond to the two sides of the range (equivalent reformulation)");
  int slk_low_is_con_low = body_at_slk_low == lb;
  VF_OBS(out_con); VF_OBS(out_slk); VF_OBS(out_eq);
#if WHAT == 0
  /* basis status coming back from the solver: slack nonbasic at a bound <=> original constraint active at the corresponding side */
  u32 expect = in_slk == ST_LOW ? (slk_low_is_con_low ? ST_LOW : ST_UPP) : in_slk == ST_UPP ? (slk_low_is_con_low ? ST_UPP : ST_LOW) : in_slk;
  if (in_con == 0) VF_ASSERT((u32)out_con == expect, "basis status of the range constraint = status of its slack with the documented low/upp mapping");
#elif WHAT == 1
  if (in_con == 0 && in_slk != IIS_NON) { u32 expect = in_slk == IIS_LOW ? (slk_low_is_con_low ? IIS_LOW : IIS_UPP) : in_slk == IIS_UPP ? (slk_low_is_con_low ? IIS_UPP : IIS_LOW) : in_slk;
    VF_ASSERT((u32)out_con == expect, "IIS side of the range constraint = side of its slack bound with the documented low/upp mapping"); }
#else
  { u32 expect = in_con == ST_LOW ? (slk_low_is_con_low ? ST_LOW : ST_UPP) : in_con == ST_UPP ? (slk_low_is_con_low ? ST_UPP : ST_LOW) : in_con;
    VF_ASSERT((u32)out_slk == expect, "basis sent to the solver: slack status = constraint status with the documented low/upp mapping");
    VF_ASSERT((u32)out_eq == ST_EQU, "the new equality row is marked 'equ'"); }
#endif
  VF_WITNESS();
}
