// C04 harness TU: value nodes (ValueNode::SetNum conflict rule, Copy<T> of node ranges), CopyLink-style transfers and -- jointly -- the
// real range->slack reformulation (RangeConstraintConverter::Convert) with the real value link it registers (pre::RangeCon2Slack).
#include <vector>
#include <new>
#include "mp/valcvt.h"
#include "mp/flat/constr_std.h"
#include "mp/flat/redef/redef_base.h"
#include "mp/flat/redef/std/range_con.h"
extern "C" { void vf_mc_addvar(double lb, double ub); void vf_mc_addcon(int kind, int nterms, const double* coefs, const int* vars, double rhs); }
template<class Tag, typename Tag::type M> struct Rob { friend typename Tag::type get(Tag) { return M; } };
using mp::pre::ValueNode;
struct TVi { typedef std::vector<int> ValueNode::*type; friend type get(TVi); }; template struct Rob<TVi, &ValueNode::vi_>;
struct TVd { typedef std::vector<double> ValueNode::*type; friend type get(TVd); }; template struct Rob<TVd, &ValueNode::vd_>;
struct TSz { typedef size_t ValueNode::*type; friend type get(TSz); }; template struct Rob<TSz, &ValueNode::sz_>;
// A ValueNode object image: only the members the numeric transfers touch are constructed (no presolver registration, no names)
struct NodeImg {
  alignas(16) char storage[sizeof(ValueNode)];
  ValueNode& n() { return *reinterpret_cast<ValueNode*>(storage); }
  NodeImg(size_t declared, size_t allocated) {
    for (size_t i = 0; i < sizeof storage; ++i) storage[i] = 0;
    new (&(n().*get(TVi()))) std::vector<int>(allocated); new (&(n().*get(TVd()))) std::vector<double>(allocated); n().*get(TSz()) = declared;
  }
  std::vector<int>& vi() { return n().*get(TVi()); } std::vector<double>& vd() { return n().*get(TVd()); }
};
#define W extern "C" __attribute__((noinline))
// ---- SetInt / SetDbl conflict rule on one slot: two successive writes into a cleaned node of declared size `size`
W int w_setnum(int size, int alloc, int idx, int a, int b, double da, double db, int* oi, double* od, int* newsize) {
  try { NodeImg N(size, alloc); N.n().SetInt(idx, a); N.n().SetInt(idx, b); N.n().SetDbl(idx, da); N.n().SetDbl(idx, db);
        *oi = N.vi()[idx]; *od = N.vd()[idx]; *newsize = (int)N.vi().size(); return 0; } catch (...) { return 3; }
}
// ---- Copy<T>(range of node 1 -> range of node 2), as CopyLink::CopySrcDest does per entry
W int w_copy(int n1, const int* v1, const double* d1, int n2, int* v2, double* d2, int b1, int e1, int b2) {
  try {
    NodeImg A(n1, n1), B(n2, n2);
    for (int i = 0; i < n1; ++i) { A.vi()[i] = v1[i]; A.vd()[i] = d1[i]; } for (int i = 0; i < n2; ++i) { B.vi()[i] = v2[i]; B.vd()[i] = d2[i]; }
    mp::pre::NodeRange r1 = A.n().Select(b1, e1 - b1), r2 = B.n().Select(b2, e1 - b1);
    mp::pre::Copy<int>(r1, r2); mp::pre::Copy<double>(r1, r2);
    for (int i = 0; i < n2; ++i) { v2[i] = B.vi()[i]; d2[i] = B.vd()[i]; }
    return 0;
  } catch (...) { return 3; }
}
// ---- range constraint -> equality + slack, with the value link
struct MC {
  NodeImg n_range{1, 1}, n_eq{1, 1}, n_var{3, 3};
  alignas(16) char vp_storage[sizeof(mp::pre::ValuePresolver)];      // never constructed: ValuePresolverImpl::Add is redirected to a harness stub
  mp::pre::ValuePresolver& GetValuePresolver() { return *reinterpret_cast<mp::pre::ValuePresolver*>(vp_storage); }
  static constexpr double Infty() { return INFINITY; } static constexpr double MinusInfty() { return -INFINITY; }
  void TurnOffAutoLinking() {}
  int nvars = 2;
  int AddVar(double lb, double ub) { vf_mc_addvar(lb, ub); return nvars++; }
  template <int K> int AddConstraint(mp::AlgebraicConstraint<mp::LinTerms, mp::AlgConRhs<K> >&& c) {
    vf_mc_addcon(K, (int)c.GetBody().size(), c.GetBody().coefs().data(), c.GetBody().vars().data(), c.rhs()); return 0; }
  ValueNode& GetValueNode(mp::LinConRange*) { return n_range.n(); }
  ValueNode& GetValueNode(mp::LinConEQ*) { return n_eq.n(); }
  ValueNode& GetVarValueNode() { return n_var.n(); }
  template <class C> const C& GetConstraint(int) const { static C* p = 0; return *p; }
};
typedef mp::RangeLinearConstraintConverter<MC> RCvt;
struct RCvtX : RCvt { using RCvt::RCvt; SlackLink& link() { return GetSlackLink(); } };
// what: 0 = basis status transfer back (PostsolveBasis), 1 = IIS transfer back, 2 = basis sent to the solver (PresolveBasis)
W int w_range(double lb, double ub, double c0, double c1, int what, int in_con, int in_slk, int* out_con, int* out_slk, int* out_eq) {
  try {
    MC mc; RCvtX cvt(mc);
    mp::LinConRange item(mp::LinTerms({c0}, {0}), mp::AlgConRange(lb, ub), false);     // one body term (c1 unused): keeps the term containers small
    cvt.Convert(item, 0);
    mc.n_range.vi()[0] = in_con; mc.n_eq.vi()[0] = 0; mc.n_var.vi()[2] = in_slk;
    if (what == 0) cvt.link().PostsolveBasis({0, 1}); else if (what == 1) cvt.link().PostsolveIIS({0, 1}); else { mc.n_var.vi()[2] = 0; cvt.link().PresolveBasis({0, 1}); }
    *out_con = mc.n_range.vi()[0]; *out_slk = mc.n_var.vi()[2]; *out_eq = mc.n_eq.vi()[0];
    return 0;
  } catch (...) { return 3; }
}
// ---- cleaning of a value node before a transfer (ValuePresolverImpl::CleanUpValueNodes calls this on every registered node)
W int w_cleanup(int size, int alloc, const int* vi, const double* vd, int* oi, double* od, int* ni, int* nd) {
  try { NodeImg N(size, alloc); for (int i = 0; i < alloc; ++i) { N.vi()[i] = vi[i]; N.vd()[i] = vd[i]; }
        N.n().CleanUpAndRealloc(); *ni = (int)N.vi().size(); *nd = (int)N.vd().size();
        for (int i = 0; i < size && i < *ni && i < *nd; ++i) { oi[i] = N.vi()[i]; od[i] = N.vd()[i]; } return 0; } catch (...) { return 3; }
}
