from vfeng import Unit, Harness
PROPERTY = 'C04'
RB = ['_ZSt18_Rb_tree_incrementPKSt18_Rb_tree_node_base', '_ZSt18_Rb_tree_incrementPSt18_Rb_tree_node_base', '_ZSt18_Rb_tree_decrementPSt18_Rb_tree_node_base', '_ZSt18_Rb_tree_decrementPKSt18_Rb_tree_node_base', '_ZSt29_Rb_tree_insert_and_rebalancebPSt18_Rb_tree_node_baseS0_RS_', '_ZNSt8_Rb_treeIiSt4pairIKidESt10_Select1stIS2_ESt4lessIiESaIS2_EE8_M_eraseEPSt13_Rb_tree_nodeIS2_E']
def units(tier):
    u = Unit('vals', 'wrap.cc', 'harness.c', externs=RB + ['vf_mc_addvar', 'vf_mc_addcon', '_ZN3fmt14BasicFormatterIcNS_12ArgFormatterIcEEE6formatENS_15BasicCStringRefIcEE'], extra_repo_cc=['src/std_constr.cc'],
             ll2c_args=['--inline-mem', '1024', '--redirect-re', r'.:_ZN2mp3pre18ValuePresolverImpl3AddENS0_9LinkRangeE$=vf_vp_add'])
    u.stub_undefined = True; u.tool_c = ['vf_rbtree.c']; u.tv = False; u.real_cxxflags = ['-fno-sanitize=vptr']
    return [u]
def harnesses(tier):
    A = ['value nodes are object images holding the numeric vectors and the declared size (no presolver registration, no names); ranges passed to Copy<T> are valid for both nodes',
         'range->slack: bounds and coefficient are enumerated concrete integers (the term containers of the real code then have concrete sizes), the basis / IIS status values are symbolic; the model converter is a recorder (AddVar / AddConstraint), ValuePresolverImpl::Add (registration in the link chain) is a stub',
         'the expected low/upp mapping is derived from the equality the REAL converter emitted (body value when the slack is at its lower / upper bound), not assumed']
    hs = [Harness('h_setnum', 'vals', unwind=6, timeout=300, mem_gb=16, tv_cases=0, assumptions=A[:1], flags=['--object-bits', '10'], bounds='node of declared size 1..3, allocated 0..size, any index, any two int and two double values',
                  claims='ValueNode::SetInt/SetDbl: max-among-non-zero conflict rule, order independent, storage grows to the declared size only'),
          Harness('h_copy', 'vals', unwind=6, timeout=600, mem_gb=16, tv_cases=0, assumptions=A[:1], flags=['--object-bits', '10'], bounds='two nodes of size 1..3, every valid pair of ranges, all contents symbolic',
                  claims='Copy<int>/Copy<double> (the kernel of CopyLink): destination range := source range, nothing else changes')]
    for (sz, al) in [(a, b) for a in range(0, 4) for b in range(0, a + 1)]:
        h = Harness('h_cleanup', 'vals', unwind=6, timeout=300, mem_gb=16, tv_cases=0, defines=['CSZ=%d' % sz, 'CAL=%d' % al], assumptions=A[:1], flags=['--object-bits', '10'], bounds='node of declared size %d with arbitrary previous contents in %d allocated slots' % (sz, al),
                    claims='ValueNode::CleanUpAndRealloc (run on every node before each presolve/postsolve transfer): all declared int and double slots are zero afterwards, whatever an earlier transfer left')
        h.label = 'h_cleanup[size%d,alloc%d]' % (sz, al); hs.append(h)
    for what, nm in ((0, 'postsolve-basis'), (1, 'postsolve-iis'), (2, 'presolve-basis')):
        for (l, u, c) in ((1, 5, 2), (-3, 4, -1)) if tier == 'quick' else ((1, 5, 2), (-3, 4, -1), (0, 1, 1), (-7, -2, 3)):
            h = Harness('h_range_slack', 'vals', unwind=8, timeout=240 if tier == 'quick' else 1200, mem_gb=24, tv_cases=0, defines=['WHAT=%d' % what, 'RLB=(%d)' % l, 'RUB=(%d)' % u, 'RC0=(%d)' % c], assumptions=A[1:], flags=['--object-bits', '10'],
                        bounds='range %d <= %d*x0 <= %d (enumerated data); every status value of the constraint and of the slack symbolic' % (l, c, u), claims='RangeConstraintConverter::Convert emits body + (+-1)*slack = bound with slack in [0, ub-lb], and RangeCon2Slack maps %s consistently with that equality (low/upp sides)' % nm)
            h.label = 'h_range_slack[%s,%d..%d,c%d]' % (nm, l, u, c); hs.append(h)
    return hs
