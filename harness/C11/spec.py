import os
from vfeng import Unit, Harness
PROPERTY = 'C11'
EXT = ['strtol', 'strtod', '_ZNK2mp19SolverOptionManager10FindOptionEPKcb', '_ZN2mp11BasicSolver5PrintEN3fmt15BasicCStringRefIcEERKNS1_7ArgListE',
       '_ZN2mp11BasicSolver11ReportErrorEN3fmt15BasicCStringRefIcEERKNS1_7ArgListE']
def units(tier):
    u = Unit('optparse', 'wrap.cc', 'harness.c', externs=EXT, ll2c_args=['--icall-hook', 'BasicSolver17ParseOptionString'])
    u.stub_undefined = True
    return [u]
def harnesses(tier):
    L = 8 if tier == 'quick' else 12
    D = ['MAXLEN=%d' % L]
    A = ['option text = NUL-terminated string in an exact-size heap block, length 0..%d, every byte value 1..255' % L,
         'strtol/strtod are contract stubs (end pointer anywhere in [s, NUL], any value): "exactly that numeric value" is outside the claim',
         'FindOption / Print / ReportError / virtual is_flag, Parse, echo_with_value, HandleUnknownOption are recording stubs; FindOption answers none/flag/int/double/string symbolically',
         'isspace model: space and 9..13 (C locale)']
    B = 'strings <= %d bytes, unwind %d' % (L, L + 4)
    hs = [Harness(n, 'optparse', unwind=L + 4, bounds=B, claims=c, assumptions=A, defines=D, timeout=300 if tier == 'quick' else 1500, known=k, tv_cases=t)
          for n, c, k, t in [
            ('h_skip_spaces', 'SkipSpaces: inside the string, stops at first non-space', [], 400),
            ('h_skip_non_spaces', 'SkipNonSpaces', [], 400), ('h_skip_to_end', 'SkipToEnd', [], 400),
            ('h_parse_string', 'OptionHelper<std::string>::Parse (both modes): memory safe, value = token / quoted text', ['unterminated_quote'], 600),
            ('h_parse_num', 'OptionHelper<int|double>::Parse leave the cursor inside the string', [], 0),
            ('h_parse_option_string', 'BasicSolver::ParseOptionString: terminates, no read outside the string, FindOption gets exactly each name token, value parser entered at first value char, name=? / flag=value / unknown name call no setter', ['unterminated_quote'], 0)]]
    hs[-1].replay_on = 'gen'; hs[-2].replay_on = 'gen'
    LP = 3 if tier == 'quick' else 6
    hs[-1].defines = ['MAXLEN=%d' % LP] + (['ECHO_OFF'] if tier == 'quick' else [])
    hs[-1].unwind = LP + 4; hs[-1].backend = 'cadical'; hs[-1].timeout = 900 if tier == 'quick' else 7200; hs[-1].mem_gb = 24
    hs[-1].bounds = 'option strings <= %d bytes (all byte values), unwind %d%s' % (LP, LP + 4, '; NO_OPTION_ECHO set (echo path only in the thorough tier)' if tier == 'quick' else '')
    hs[-1].flags = ['--object-bits', '12']
    for ws in (0, 1, 2):
        for kl in ((5, 7) if tier == 'quick' else (3, 5, 7, 9)):
            h = Harness('h_wc_match', 'optparse', unwind=14, timeout=300 if tier == 'quick' else 1200, mem_gb=16, defines=['MAXLEN=%d' % L, 'WCSET=%d' % ws, 'KEYLEN=%d' % kl], tv_cases=0, flags=['--object-bits', '10'],
                        bounds='option name set %d (1-2 wildcard names, concrete), every key of %d non-NUL bytes' % (ws, kl), assumptions=['SolverOption object image: wildcard head/tail table filled directly (the constructor uses std::istringstream); key length enumerated, key bytes symbolic'],
                        claims='SolverOption::wc_match: matches iff head is a prefix and tail a suffix of the key; the * body is taken between head and tail of the name that matched')
            h.label = 'h_wc_match[set%d,len%d]' % (ws, kl); hs.append(h)
    return hs
