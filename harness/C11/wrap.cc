// C11 harness TU: option-string tokeniser and typed value parsers of src/solver.cc (whole file included).
#include "solver.cc"
#define W extern "C" __attribute__((noinline))
W const char* w_skip_spaces(const char* s) { return SkipSpaces(s); }
W const char* w_skip_non_spaces(const char* s) { return SkipNonSpaces(s); }
W const char* w_skip_to_end(const char* s) { return SkipToEnd(s); }
W const char* w_skip_to_matching_quote(const char* s) { return SkipToMatchingQuote(s); }
// OptionHelper<std::string>::Parse: returns consumed length, copies the value (up to cap bytes) to out, *outlen = value length
W long w_parse_string(const char* s, int split, char* out, unsigned long cap, unsigned long* outlen) {
  try {
    const char* p = s;
    std::string v = mp::internal::OptionHelper<std::string>::Parse(p, split != 0);
    *outlen = v.size();
    for (unsigned long i = 0; i < v.size() && i < cap; ++i) out[i] = v[i];
    return p - s;
  } catch (...) { return -1000; }
}
W long w_parse_int(const char* s, int* val) { const char* p = s; *val = mp::internal::OptionHelper<int>::Parse(p, false); return p - s; }
W long w_parse_double(const char* s, double* val) { const char* p = s; *val = mp::internal::OptionHelper<double>::Parse(p, false); return p - s; }
W int w_parse_option_string(mp::BasicSolver* self, const char* s, unsigned flags) {
  try { self->ParseOptionString(s, flags); return 0; } catch (...) { return 1; }
}
