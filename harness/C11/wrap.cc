// C11 harness TU: option-string tokeniser and typed value parsers of src/solver.cc (whole file included).
#include "solver.cc"
#define W extern "C" __attribute__((noinline))
W const char* w_skip_spaces(const char* s) { return SkipSpaces(s); }
W const char* w_skip_non_spaces(const char* s) { return SkipNonSpaces(s); }
W const char* w_skip_to_end(const char* s) { return SkipToEnd(s); }
W const char* w_skip_to_matching_quote(const char* s) { return SkipToMatchingQuote(s); }
// OptionHelper<std::string>::Parse: returns consumed length, copies the value (up to cap bytes) to out, *outlen = value length
W long w_parse_string(const char* s, int split, char* out, unsigned long cap, unsigned long* outlen) {
  try {
    const char* p = s;
    std::string v = mp::internal::OptionHelper<std::string>::Parse(p, split != 0);
    *outlen = v.size();
    for (unsigned long i = 0; i < v.size() && i < cap; ++i) out[i] = v[i];
    return p - s;
  } catch (...) { return -1000; }
}
W long w_parse_int(const char* s, int* val) { const char* p = s; *val = mp::internal::OptionHelper<int>::Parse(p, false); return p - s; }
W long w_parse_double(const char* s, double* val) { const char* p = s; *val = mp::internal::OptionHelper<double>::Parse(p, false); return p - s; }
W int w_parse_option_string(mp::BasicSolver* self, const char* s, unsigned flags) {
  try { self->ParseOptionString(s, flags); return 0; } catch (...) { return 1; }
}
// ---- wildcard option names ("acc:*", "alg:*:x"): SolverOption::wc_match on an object image whose wildcard table is filled directly
// (the constructor parses the name list with std::istringstream, which is libstdc++ binary code)
template<class Tag, typename Tag::type M> struct Rob { friend typename Tag::type get(Tag) { return M; } };
typedef std::pair<std::string, std::string> HT;
struct THt { typedef std::vector<HT> mp::SolverOption::*type; friend type get(THt); }; template struct Rob<THt, &mp::SolverOption::wc_headtails_>;
struct TKl { typedef std::string mp::SolverOption::*type; friend type get(TKl); }; template struct Rob<TKl, &mp::SolverOption::wc_key_last_>;
struct TBl { typedef std::string mp::SolverOption::*type; friend type get(TBl); }; template struct Rob<TBl, &mp::SolverOption::wc_body_last_>;
W int w_wc_match(const char* h0, const char* t0, const char* h1, const char* t1, const char* key, unsigned long keylen, char* body, unsigned long cap, unsigned long* bodylen) {
  try {
    alignas(16) char storage[sizeof(mp::SolverOption)]; for (unsigned long i = 0; i < sizeof storage; ++i) storage[i] = 0;
    mp::SolverOption& o = *reinterpret_cast<mp::SolverOption*>(storage);
    new (&(o.*get(THt()))) std::vector<HT>(); new (&(o.*get(TKl()))) std::string(); new (&(o.*get(TBl()))) std::string();
    (o.*get(THt())).push_back(HT(h0, t0)); if (h1) (o.*get(THt())).push_back(HT(h1, t1));
    std::string k(key, keylen);
    bool m = o.wc_match(k);
    const std::string& b = o.wc_keybody_last(); *bodylen = b.size();
    for (unsigned long i = 0; i < b.size() && i < cap; ++i) body[i] = b[i];
    return m;
  } catch (...) { return -1; }
}
