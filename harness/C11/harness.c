/* C11: option-string parsing is total, memory safe and faithful (tokeniser level). */
#include "vf_harness.h"
#ifndef MAXLEN
#define MAXLEN 8
#endif
static int sp(u8 c) { return c == ' ' || (c >= 9 && c <= 13); }
/* a symbolic NUL-terminated string of symbolic length n <= MAXLEN.  Natively (replay, translator validation) it
 * lives in an exact-size heap block so that ASan sees any read past the NUL; under CBMC the block has the fixed size
 * MAXLEN+2 (symbolic-size objects make the SAT problem intractable) with arbitrary bytes after the NUL: a scan that
 * runs past the terminator either leaves the block (pointer check) or stops on a later byte (cursor > n assertions). */
static char *mkstr(u32 *plen) {
  u32 n = (u32)vf_nd64(); VF_REQUIRE(n <= MAXLEN);
#ifdef __CPROVER__
  char *b = vf_malloc(MAXLEN + 2);
  for (u32 i = 0; i < MAXLEN + 2; i++) { u8 c = vf_nd8(); if (i < n) VF_REQUIRE(c != 0); b[i] = (i == n) ? 0 : (char)c; }
#else
  char *b = vf_malloc((u64)n + 1);
  for (u32 i = 0; i < MAXLEN + 2; i++) { u8 c = vf_nd8(); if (i < n) { VF_REQUIRE(c != 0); b[i] = (char)c; } }
  b[n] = 0;
#endif
  *plen = n; return b;
}
/* ---------- libc contract stubs (numeric conversion itself is outside the claim) ---------- */
#ifndef VF_REAL
static u64 slen(char *s) { u64 n = 0; while (s[n]) n++; return n; }
u64 vf_c_strtol(char *s, char *endp, u32 base) { u64 k = vf_nd64(); VF_REQUIRE(k <= slen(s)); *(char **)endp = s + k; return vf_nd64(); }
vf_f64 vf_c_strtod(char *s, char *endp) { u64 k = vf_nd64(); VF_REQUIRE(k <= slen(s)); *(char **)endp = s + k; return vf_bits2d(vf_nd64()); }
#endif

/* ---------- kernels ---------- */
void h_skip_spaces(void) { u32 n; char *b = mkstr(&n); char *r = w_skip_spaces(b);
  VF_OBS(r - b); VF_ASSERT(r >= b && r <= b + n, "SkipSpaces stays inside the string");
  VF_ASSERT(*r == 0 || !sp((u8)*r), "SkipSpaces stops at NUL or non-space");
  for (u32 i = 0; i < MAXLEN; i++) { if (b + i >= r) break; VF_ASSERT(sp((u8)b[i]), "SkipSpaces skips only spaces"); } VF_WITNESS(); }
void h_skip_non_spaces(void) { u32 n; char *b = mkstr(&n); char *r = w_skip_non_spaces(b);
  VF_OBS(r - b); VF_ASSERT(r >= b && r <= b + n, "SkipNonSpaces stays inside the string");
  VF_ASSERT(*r == 0 || sp((u8)*r), "SkipNonSpaces stops at NUL or space");
  for (u32 i = 0; i < MAXLEN; i++) { if (b + i >= r) break; VF_ASSERT(!sp((u8)b[i]), "SkipNonSpaces skips only non-spaces"); } VF_WITNESS(); }
void h_skip_to_end(void) { u32 n; char *b = mkstr(&n); char *r = w_skip_to_end(b);
  VF_OBS(r - b); VF_ASSERT(r >= b && r <= b + n, "SkipToEnd stays inside the string");
  VF_ASSERT(*r == 0 || *r == '\n', "SkipToEnd stops at NUL or newline"); VF_WITNESS(); }
/* value parser for string options: any text (the first byte decides quoted / unquoted) */
void h_parse_string(void) {
  u32 n; char *b = mkstr(&n); int split = vf_ndbool(); char out[MAXLEN + 2]; u64 outlen = 0;
#ifdef KF_unterminated_quote
  { int q = (b[0] == '\'' || b[0] == '"'), closed = 0; for (u32 i = 1; i < MAXLEN; i++) { if (i >= n) break; if (b[i] == b[0]) closed = 1; }
    VF_REQUIRE(split || !q || closed); }
#endif
  s64 used = (s64)w_parse_string(b, split, out, MAXLEN + 1, (char *)&outlen);
  VF_OBS(used); VF_OBS(outlen);
  VF_ASSERT(used >= 0 && used <= (s64)n, "string value parser consumes only bytes of the string");
  VF_ASSERT(outlen <= n, "value not longer than the text");
  if (split) { VF_ASSERT(used == (s64)n || b[used] == '\n', "command-line mode: value runs to end / newline"); VF_ASSERT(outlen == (u64)used, "value is the consumed text"); }
  else if (b[0] == '\'' || b[0] == '"') {
    u32 close = 0; for (u32 i = 1; i < MAXLEN; i++) { if (i >= n) break; if (!close && b[i] == b[0]) close = i; }
    if (close) { VF_ASSERT(used == (s64)close + 1, "quoted value ends right after the matching quote"); VF_ASSERT(outlen == (u64)close - 1, "value is the text between the quotes"); }
    /* unterminated quote (malformed): only memory safety and termination are required */
  }
  else { VF_ASSERT(used == (s64)n || sp((u8)b[used]), "unquoted value ends at space / NUL"); VF_ASSERT(outlen == (u64)used, "value is the token"); }
  for (u32 i = 0; i < MAXLEN; i++) { if (i >= outlen) break; VF_OBS(out[i]); }
  VF_WITNESS();
}
void h_parse_num(void) {
  u32 n; char *b = mkstr(&n); u32 iv; double dv;
  s64 u1 = (s64)w_parse_int(b, (char *)&iv); s64 u2 = (s64)w_parse_double(b, (char *)&dv);
  VF_ASSERT(u1 >= 0 && u1 <= (s64)n && u2 >= 0 && u2 <= (s64)n, "numeric value parsers leave the cursor inside the string"); VF_WITNESS();
}

/* ---------- BasicSolver::ParseOptionString with checking stubs ----------
 * A reference tokeniser (the specification) advances in lock step with the calls the real code makes:
 * every stub checks that it is the call the reference expects next, with the expected name / cursor. */
#ifndef VF_REAL
enum { K_NONE = 0, K_FLAG = 1, K_INT = 2, K_DBL = 3, K_STR = 4 };
enum { X_FIND = 0, X_UNKNOWN, X_QUERY, X_ERRFLAG, X_PARSE, X_ECHO };
static char *in_base; static u32 in_len, rp; static int cur_kind, expect, echo_on, ncalls;
static void marker_self(void) {} static void marker_opt(void) {}
#define M8(x) x, x, x, x, x, x, x, x
#define M48(x) M8(x), M8(x), M8(x), M8(x), M8(x), M8(x)
static char *vt_self[48] = { M48((char *)&marker_self) }, *vt_opt[48] = { M48((char *)&marker_opt) };
static char *selfobj[64]; static char *optobj[5][4];
static void ref_skip_sp(void) { for (u32 i = 0; i <= MAXLEN; i++) { if (rp >= in_len || !sp((u8)in_base[rp])) break; rp++; } }
static void ref_skip_nonsp(void) { for (u32 i = 0; i <= MAXLEN; i++) { if (rp >= in_len || sp((u8)in_base[rp])) break; rp++; } }
/* SolverOptionManager::FindOption(name, wildcards): answers none / flag / int / double / string, chosen by the solver */
char *_ZNK2mp19SolverOptionManager10FindOptionEPKcb(char *self, char *name, u8 wc) {
  ncalls++;
  VF_ASSERT(expect == X_FIND, "FindOption called while another handler call was due");
  ref_skip_sp();
  VF_ASSERT(rp < in_len, "FindOption called although no token is left");
  u32 ns = rp, k = 0;
  for (u32 i = 0; i <= MAXLEN; i++) {                    /* name token: up to space, '=' or NUL */
    if (rp >= in_len || sp((u8)in_base[rp]) || in_base[rp] == '=') break;
    VF_ASSERT(name[k] == in_base[rp], "name handed to FindOption equals the token"); rp++; k++;
  }
  VF_ASSERT(name[k] == 0, "name handed to FindOption ends with the token");
  ref_skip_sp(); int eq = 0;
  if (rp < in_len && in_base[rp] == '=') { eq = 1; rp++; ref_skip_sp(); }
  cur_kind = (int)(vf_nd64() % 5);
  if (cur_kind == K_NONE) expect = X_UNKNOWN;
  else if (rp < in_len && in_base[rp] == '?' && (rp + 1 >= in_len || sp((u8)in_base[rp + 1]))) { rp++; expect = echo_on ? X_QUERY : X_FIND; }
  else if (eq && cur_kind == K_FLAG) { ref_skip_nonsp(); expect = X_ERRFLAG; }
  else expect = X_PARSE;
  return cur_kind == K_NONE ? (char *)0 : (char *)optobj[cur_kind];
}
void _ZN2mp11BasicSolver5PrintEN3fmt15BasicCStringRefIcEERKNS1_7ArgListE(char *self, char *fmt, char *args) {
  ncalls++;
  if (fmt[4] == '\n') { VF_ASSERT(expect == X_QUERY, "current-value echo printed although no 'name=?' was due"); expect = X_FIND; }
  else { VF_ASSERT(expect == X_ECHO, "assignment echo printed although no assignment was made"); expect = X_FIND; }
}
void _ZN2mp11BasicSolver11ReportErrorEN3fmt15BasicCStringRefIcEERKNS1_7ArgListE(char *self, char *fmt, char *args) {
  ncalls++; VF_ASSERT(expect == X_ERRFLAG, "error reported although no value was given to a flag"); expect = X_FIND;
}
u8 vf_icall_u8_charp(char *fp, char *a0) { VF_ASSERT(fp == (char *)&marker_opt, "is_flag() called on the option returned by FindOption"); return cur_kind == K_FLAG; }
static void empty_string(char *sret) { *(char **)sret = sret + 16; *(u64 *)(sret + 8) = 0; sret[16] = 0; }
void vf_icall_void_charp_charp(char *fp, char *a0, char *a1) {
  if (fp == (char *)&marker_self) {                                              /* HandleUnknownOption(name) */
    ncalls++; VF_ASSERT(expect == X_UNKNOWN, "HandleUnknownOption called for a known option / out of turn"); expect = X_FIND; return; }
  VF_ASSERT(fp == (char *)&marker_opt, "unexpected virtual call target"); empty_string(a0);   /* echo_with_value() */
}
void vf_icall_void_charp_charp_u8(char *fp, char *a0, char *sref, u8 fromcl) {        /* opt->Parse(s, from_command_line) = the setter */
  ncalls++;
  VF_ASSERT(fp == (char *)&marker_opt, "Parse() called on the option returned by FindOption");
  VF_ASSERT(expect == X_PARSE, "a setter was called although none is due (name=?, value to a flag, unknown name)");
  char *s = *(char **)sref;
  VF_ASSERT(s == in_base + rp, "the value parser is entered at the first value character");
  u64 used = 0;
  if (cur_kind == K_INT) { u32 v; used = w_parse_int(s, (char *)&v); }
  else if (cur_kind == K_DBL) { double d; used = w_parse_double(s, (char *)&d); }
  else if (cur_kind == K_STR) {       /* consumption of OptionHelper<std::string>::Parse (decided separately by h_parse_string) */
    char *e = fromcl ? w_skip_to_end(s) : ((*s == '\'' || *s == '"') ? w_skip_to_matching_quote(s) : w_skip_non_spaces(s)); used = (u64)(e - s); }
  *(char **)sref = s + used; rp += (u32)used;
  expect = echo_on ? X_ECHO : X_FIND;
}
void vf_icall_void_charp_u64(char *fp, char *a0, u64 n) { VF_ASSERT(0, "name buffer growth (names > 49 bytes) is outside the bound"); }
#endif
void h_parse_option_string(void) {
#ifdef VF_REAL
  VF_REQUIRE(0);     /* needs the checking stubs: runs on the translated code only (see spec) */
#else
  u32 n; char *b = mkstr(&n); in_base = b; in_len = n; rp = 0; expect = X_FIND; ncalls = 0;
  u32 flags = (u32)(vf_nd64() & 3);        /* bit0 NO_OPTION_ECHO, bit1 FROM_COMMAND_LINE */
#ifdef ECHO_OFF
  flags |= 1;
#endif
  echo_on = !(flags & 1);
  selfobj[0] = (char *)vt_self; optobj[0][0] = optobj[1][0] = optobj[2][0] = optobj[3][0] = optobj[4][0] = (char *)vt_opt;
#ifdef KF_unterminated_quote
  for (u32 i = 0; i < MAXLEN; i++) { if (i >= n) break; if (b[i] == '\'' || b[i] == '"') { int closed = 0; for (u32 j = 0; j < MAXLEN; j++) { if (j >= n) break; if (j > i && b[j] == b[i]) closed = 1; } VF_REQUIRE(closed); } }
#endif
  u32 rc = w_parse_option_string((char *)selfobj, b, flags);
  VF_OBS(rc); VF_OBS(ncalls);
  VF_ASSERT(rc == 0, "ParseOptionString does not throw by itself (the handlers are stubs)");
  VF_ASSERT(expect == X_FIND, "ParseOptionString returned while a handler call was still due");
  ref_skip_sp();
  VF_ASSERT(rp >= n, "ParseOptionString returned before the whole option string was processed");
  VF_WITNESS();
#endif
}

/* ---- wildcard option names: key matches head*tail of one of the option's names; the '*' body is what lies between ---- */
#ifndef KEYLEN
#define KEYLEN 5
#endif
#ifndef WCSET
#define WCSET 0
#endif
static int pre_(const char *k, u32 n, const char *h) { u32 i = 0; for (; i < 8; i++) { if (!h[i]) return 1; if (i >= n || k[i] != h[i]) return 0; } return 1; }
static u32 len_(const char *t) { u32 i = 0; for (; i < 8; i++) if (!t[i]) break; return i; }
static int suf_(const char *k, u32 n, const char *t) { u32 l = len_(t); if (l > n) return 0; for (u32 i = 0; i < 8; i++) { if (i >= l) break; if (k[n - l + i] != t[i]) return 0; } return 1; }
void h_wc_match(void) {
  /* enumerated option name sets (head, tail pairs; concrete) x every key of the given length (symbolic bytes) */
  static const char *H0[] = {"acc:", "a", "alg:"}, *T0[] = {"", "b", ":x"}, *H1[] = {0, "lo:", "tech:"}, *T1[] = {0, "", ":yz"};
  const char *h0 = H0[WCSET], *t0 = T0[WCSET], *h1 = H1[WCSET], *t1 = T1[WCSET];
  char *key = vf_malloc(KEYLEN + 1); for (u32 i = 0; i < KEYLEN; i++) { key[i] = (char)vf_nd8(); VF_REQUIRE(key[i] != 0); } key[KEYLEN] = 0;
  char body[16]; u64 bl = 99;
  u32 rc = w_wc_match((char *)h0, (char *)t0, (char *)h1, (char *)t1, key, KEYLEN, body, 16, (char *)&bl);
  VF_OBS(rc); VF_OBS(bl);
  VF_ASSERT(rc <= 1, "no exception");
  /* reference: first name whose head is a prefix and whose tail is a suffix of the key, the key being longer than the tail */
  int m0 = pre_(key, KEYLEN, h0) && KEYLEN > len_(t0) && suf_(key, KEYLEN, t0);
  int m1 = h1 && pre_(key, KEYLEN, h1) && KEYLEN > len_(t1) && suf_(key, KEYLEN, t1);
  VF_ASSERT((rc == 1) == (m0 || m1), "wildcard option matches iff the key starts with a name's head and ends with its tail");
  if (rc == 1) { const char *h = m0 ? h0 : h1, *t = m0 ? t0 : t1; u32 hl = len_(h), tl = len_(t);
    if (hl + tl <= KEYLEN) { VF_ASSERT(bl == KEYLEN - hl - tl, "the '*' body is the part of the key between head and tail of the MATCHING name");
      if (bl == KEYLEN - hl - tl) for (u32 i = 0; i < KEYLEN; i++) { if (i >= bl) break; VF_ASSERT(body[i] == key[hl + i], "body bytes"); } } }
  VF_WITNESS();
}
