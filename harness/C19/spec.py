from vfeng import Unit, Harness
PROPERTY = 'C19'
def units(tier):
    u = Unit('names', 'wrap.cc', 'harness.c', externs=['vf_on_name', '_ZN2mp8internal10NameReader4ReadIN8internal11NameHandlerEEEvN3fmt15BasicCStringRefIcEERT_', '_ZN3fmt14BasicFormatterIcNS_12ArgFormatterIcEEE6formatENS_15BasicCStringRefIcEE'],
             extra_repo_cc=['src/format.cc', 'src/os.cc', 'src/posix.cc', 'src/expr-info.cc'], ll2c_args=['--inline-mem', '1024'])
    u.stub_undefined = True
    return [u]
def harnesses(tier):
    L = 5 if tier == 'quick' else 8
    A = ['.col/.row content = arbitrary bytes, length 0..%d (incl. \\r, empty lines, missing final newline); the memory-mapped file is a harness buffer (NameReader::Read is the environment)' % L,
         'requested index 0..%d; generic base name "x"' % (L + 1)]
    hs = []
    L2 = 10 if tier == 'quick' else 16
    for place in ([], ['PLACE_END']):
        h = Harness('h_split', 'names', unwind=L2 + 4, timeout=600, mem_gb=16, bounds='buffer <= %d bytes' % L2, assumptions=[A[0].replace(str(L), str(L2))], defines=['MAXLEN=%d' % L2] + place,
                    claims='mp::internal::ReadNames: reads inside the buffer, every line reported once in order with \\n / \\r\\n stripped, missing final newline => ReadError',
                    tv_cases=2000 if not place else 0, flags=['--object-bits', '10'])
        h.label = 'h_split[%s]' % ('end' if place else 'start'); hs.append(h)
    for place in ([] if tier == 'quick' else [[], ['PLACE_END']]):
        h = Harness('h_name_lookup', 'names', unwind=12, timeout=3600, mem_gb=44, bounds='file <= 8 bytes, any line, state constructed directly', assumptions=A + ['NameProvider state (names_) constructed directly as ReadNames leaves it: line starts plus end marker'],
                    defines=['MAXLEN=8'] + place, claims='NameProvider::name(i) returns line i without its line end, reading only inside the mapped file', known=['empty_first_line'], tv_cases=2000 if not place else 0, flags=['--object-bits', '10'])
        h.label = 'h_name_lookup[%s]' % ('end' if place else 'start'); hs.append(h)
    for (ln, mask, idx) in [] if tier == 'quick' else [(3, 0b100, 0), (4, 0b1010, 1), (5, 0b10100, 0), (5, 0b10100, 1), (5, 0b10001, 1), (6, 0b100100, 1)]:
        h = Harness('h_name_lookup_enum', 'names', unwind=12, unwindset=['w_np_make_img.0:900'], timeout=300, mem_gb=16, bounds='file of %d bytes, newlines at mask %s, line %d requested; all other bytes symbolic (incl. \\r)' % (ln, bin(mask), idx), assumptions=A[:1] + ['NameProvider object image holding names_ as ReadNames leaves it; line structure enumerated'],
                    defines=['MAXLEN=8', 'ELEN=%d' % ln, 'EMASK=%d' % mask, 'EIDX=%d' % idx], claims='NameProvider::name(i) returns line i without its line end (one trailing \\r before the \\n removed, nothing else), reading only inside the mapped file', tv_cases=0, flags=['--object-bits', '10'])
        h.label = 'h_name_lookup_enum[len%d,%s,i%d]' % (ln, format(mask, 'b'), idx); hs.append(h)
    if tier == 'quick': return hs      # the whole NameProvider pipeline (h_names) needs > 10 min: thorough tier only
    for place in ([], ['PLACE_END']):
        h = Harness('h_names', 'names', unwind=L + 4, timeout=600 if tier == 'quick' else 3600, mem_gb=40, bounds='file <= %d bytes' % L, assumptions=A, defines=['MAXLEN=%d' % L] + place,
                    claims='ReadNames/NameProvider: all reads inside the mapped file; name i = i-th line without line end; indices beyond the file give gen[i+1]; missing final newline => ReadError',
                    known=['empty_first_line'], tv_cases=2000 if not place else 0, flags=['--object-bits', '10'])
        h.label = 'h_names[%s]' % ('data at block end' if place else 'data at block start'); hs.append(h)
    return hs
