/* C19 (partial): names read from .col/.row files are complete and faithful; generic names otherwise. */
#include "vf_harness.h"
#ifndef MAXLEN
#define MAXLEN 8
#endif
char *vf_names_buf; u64 vf_names_len;
static char *blk;
#ifdef VF_REAL
#include <stdio.h>
#include <unistd.h>
#include <stdlib.h>
static char path[64];
#else
static char path[8] = "n.col";
/* fmt formatting of the ReadError message text: not the subject */
void _ZN3fmt14BasicFormatterIcNS_12ArgFormatterIcEEE6formatENS_15BasicCStringRefIcEE(char *self, char *fmt) { }
/* NameReader::Read<NameHandler>(filename, handler): the memory-mapped file is the harness buffer */
void _ZN2mp8internal10NameReader4ReadIN8internal11NameHandlerEEEvN3fmt15BasicCStringRefIcEERT_(char *self, char *fname, char *handler) { w_feed(handler); }
#endif
static u32 nlines, has_tail, line_start[MAXLEN + 1], line_len[MAXLEN + 1];
static void mkbuf(void) {
  u32 n = (u32)vf_nd64(); VF_REQUIRE(n <= MAXLEN);
  blk = vf_malloc(MAXLEN + 1);
  for (u32 i = 0; i < MAXLEN + 1; i++) blk[i] = (char)vf_nd8();
#ifdef PLACE_END
  vf_names_buf = blk + (MAXLEN + 1 - n);        /* data ends where the block ends: over-reads are out of bounds */
#else
  vf_names_buf = blk;                           /* data starts where the block starts: under-reads are out of bounds */
#endif
  vf_names_len = n;
  /* reference line splitter */
  nlines = 0; u32 st = 0;
  for (u32 i = 0; i < MAXLEN; i++) { if (i >= n) break; if (vf_names_buf[i] == '\n') { u32 e = i; if (e > st && vf_names_buf[e - 1] == '\r') e--; line_start[nlines] = st; line_len[nlines] = e - st; nlines++; st = i + 1; } }
  has_tail = st != n;
#ifdef VF_REAL
  { const char *td = getenv("VF_TMP"); snprintf(path, sizeof path, "%s/vf_c19_%d.col", td ? td : "/tmp", (int)getpid()); }      /* VF_TMP: the check's scratch directory (removed at the end of the run) */
  FILE *f = fopen(path, "wb"); fwrite(vf_names_buf, 1, n, f); fclose(f);
#endif
}
static u32 got;
void vf_on_name(u64 off, u64 len) {
  VF_OBS(off); VF_OBS(len);
  VF_ASSERT(got < nlines, "more names reported than the file has lines");
  if (got < nlines) { VF_ASSERT(off == line_start[got], "name i starts where line i starts"); VF_ASSERT(len == line_len[got], "name i is line i without \\n or \\r\\n"); }
  got++;
}
void h_split(void) {      /* mp::internal::ReadNames on an arbitrary buffer */
  mkbuf(); got = 0;
  u32 rc = w_split(vf_names_buf, vf_names_len); VF_OBS(rc);
  VF_ASSERT(rc == 0 || rc == 1, "only ReadError may be thrown");
  VF_ASSERT((rc == 1) == (has_tail != 0), "missing final newline <=> ReadError");
  VF_ASSERT(got == nlines, "every line is reported exactly once, in order");
  VF_WITNESS();
}
void h_name_lookup(void) {      /* NameProvider::name(i) from the state ReadNames leaves behind */
  mkbuf(); VF_REQUIRE(!has_tail && nlines >= 1);
  u32 offs[MAXLEN + 2];
  for (u32 i = 0; i < MAXLEN + 1; i++) { if (i >= nlines) break; offs[i] = line_start[i]; }
  u32 endm = line_start[nlines - 1] + line_len[nlines - 1] + 1;         /* NameProvider::ReadNames: last_name.data() + size + 1 */
  for (u32 i = 0; i < MAXLEN + 2; i++) { if (i >= nlines) offs[i] = endm; }   /* fixed-size vector (concrete allocation); entries past the end marker are never used for idx < nlines */
  char *np = w_np_make(vf_names_buf, (char *)offs, MAXLEN + 2);
  VF_REQUIRE(np != 0);
  u64 idx = vf_nd64() % (MAXLEN + 1); VF_REQUIRE(idx < nlines);
  char out[24]; u64 len = 0;
  u32 rc = w_np_name(np, idx, out, sizeof out, (char *)&len); VF_OBS(rc); VF_OBS(len);
  VF_ASSERT(rc == 0, "name() does not throw");
  VF_ASSERT(len == line_len[idx], "name i has the length of line i without its line end");
  for (u32 k = 0; k < MAXLEN; k++) { if (k >= len || k >= line_len[idx]) break; VF_ASSERT(out[k] == vf_names_buf[line_start[idx] + k], "name i is the text of line i"); }
  VF_WITNESS();
}
void h_names(void) {
  mkbuf();
#ifdef KF_empty_first_line
  VF_REQUIRE(!(vf_names_len >= 1 && vf_names_buf[0] == '\n'));
#endif
#ifndef __CPROVER__
  VF_REQUIRE(vf_names_len > 0);     /* native: an empty file cannot be memory-mapped (environment difference) */
#endif
  u32 st = 7; u64 num_items = vf_nd64() % 4;
  char *np = w_np_create(path, (char *)"x", num_items, (char *)&st);
  VF_OBS(st);
  VF_ASSERT(st == 0 || st == 1, "only ReadError may be thrown while reading names");
  VF_ASSERT((st == 1) == (has_tail != 0), "missing final newline <=> ReadError");
  if (st != 0) { VF_WITNESS(); return; }
  u64 nr = w_np_number_read(np); VF_OBS(nr);
  VF_ASSERT(nr == nlines, "number of names read equals the number of lines");
  u64 idx = vf_nd64() % (MAXLEN + 2);
  char out[24]; u64 len = 0;
  u32 rc = w_np_name(np, idx, out, sizeof out, (char *)&len);
  VF_OBS(rc); VF_OBS(len);
  VF_ASSERT(rc == 0, "name() does not throw");
  if (idx < nlines) {
    VF_ASSERT(len == line_len[idx], "name i has the length of line i without its line end");
    for (u32 k = 0; k < MAXLEN; k++) { if (k >= len || k >= line_len[idx]) break; VF_ASSERT(out[k] == vf_names_buf[line_start[idx] + k], "name i is the text of line i"); }
  } else {              /* generic name "x[idx+1]" */
    u64 v = idx + 1; u32 nd = v >= 10 ? 2 : 1;
    VF_ASSERT(len == 3 + nd, "generic name has the form gen[i+1]");
    VF_ASSERT(out[0] == 'x' && out[1] == '[' && out[len - 1] == ']', "generic name has the form gen[i+1]");
    if (nd == 1) VF_ASSERT(out[2] == (char)('0' + v), "generic name index"); else VF_ASSERT(out[2] == (char)('0' + v / 10) && out[3] == (char)('0' + v % 10), "generic name index");
  }
  VF_WITNESS();
}

/* ---- NameProvider::name(i) on a file whose line structure is enumerated (positions of the newlines concrete), all other bytes symbolic
 * (so names may contain or end in '\r'); the NameProvider state is constructed directly as ReadNames leaves it ---- */
#ifndef ELEN
#define ELEN 5
#endif
#ifndef EMASK
#define EMASK 0x14
#endif
#ifndef EIDX
#define EIDX 0
#endif
void h_name_lookup_enum(void) {
  char *b = vf_malloc(ELEN); u32 ls[ELEN + 1], nl = 0, st = 0; u32 ends[ELEN + 1];
  for (u32 i = 0; i < ELEN; i++) { if ((EMASK >> i) & 1) { b[i] = '\n'; ls[nl] = st; ends[nl] = i; nl++; st = i + 1; } else { u8 c = vf_nd8(); VF_REQUIRE(c != '\n' && c != 0); b[i] = (char)c; } }
  VF_REQUIRE(((EMASK >> (ELEN - 1)) & 1) && EIDX < nl);          /* file ends with a newline; the requested line exists */
  u32 offs[ELEN + 2]; for (u32 i = 0; i < ELEN + 2; i++) offs[i] = i < nl ? ls[i] : ELEN;       /* names_: start of every line, then the end marker */
  vf_names_buf = b; vf_names_len = ELEN;
  char *np = w_np_make_img(b, (char *)offs, ELEN + 2); VF_REQUIRE(np != 0);
  char out[24]; u64 len = 0;
  u32 rc = w_np_name(np, EIDX, out, sizeof out, (char *)&len); VF_OBS(rc); VF_OBS(len);
  VF_ASSERT(rc == 0, "name() does not throw");
  /* expected: the line without its \n, and without one \r directly before the \n (Windows line end) */
  u32 s0 = ls[EIDX], e0 = ends[EIDX]; u32 el = e0 - s0; if (el > 0 && b[e0 - 1] == '\r') el--;
  VF_ASSERT(len == el, "name i is line i without its line end (\\n or \\r\\n), nothing more removed");
  for (u32 k = 0; k < ELEN; k++) { if (k >= len || k >= el) break; VF_ASSERT(out[k] == b[s0 + k], "name i is the text of line i"); }
  VF_WITNESS();
}
