// C19 harness TU: the real mp::NameProvider / mp::internal::ReadNames (src/nl-reader.cc included as a whole).
#include "nl-reader.cc"
#define W extern "C" __attribute__((noinline))
extern "C" { extern const char* vf_names_buf; extern unsigned long vf_names_len; }
// feeds the harness buffer (the content of the .col/.row file) to the real line splitter with the real NameHandler
W int w_feed(void* handler) {
  mp::internal::ReadNames("names", fmt::StringRef(vf_names_buf, vf_names_len), *static_cast< ::internal::NameHandler*>(handler));
  return 0;
}
W void* w_np_create(const char* filename, const char* gen, unsigned long num_items, int* status) {
  try { *status = 0; return new mp::NameProvider(filename, gen, num_items); }
  catch (const mp::ReadError&) { *status = 1; return 0; } catch (...) { *status = 2; return 0; }
}
W int w_np_name(void* np, unsigned long index, char* out, unsigned long cap, unsigned long* len) {
  try { fmt::StringRef s = static_cast<mp::NameProvider*>(np)->name(index);
        *len = s.size(); for (unsigned long i = 0; i < s.size() && i < cap; ++i) out[i] = s.data()[i]; return 0; }
  catch (...) { return 1; }
}
W unsigned long w_np_number_read(void* np) { return static_cast<mp::NameProvider*>(np)->number_read(); }
// the line splitter alone, with a recording handler (template parameter of the real function)
extern "C" void vf_on_name(long offset, unsigned long len);
struct RecHandler { const char* base; void OnName(fmt::StringRef n) { vf_on_name(n.data() - base, n.size()); } };
W int w_split(const char* data, unsigned long len) {
  try { RecHandler h{data}; mp::internal::ReadNames("names", fmt::StringRef(data, len), h); return 0; }
  catch (const mp::ReadError&) { return 1; } catch (...) { return 2; }
}
// NameProvider::name() on a directly constructed state: names_ = line starts + end marker, as ReadNames leaves it
template<class Tag, typename Tag::type M> struct Rob { friend typename Tag::type get(Tag) { return M; } };
struct NamesTag { typedef std::vector<const char*> mp::NameProvider::*type; friend type get(NamesTag); };
template struct Rob<NamesTag, &mp::NameProvider::names_>;
W void* w_np_make(const char* buf, const unsigned* offs, unsigned n) {
  try { auto* np = new mp::NameProvider("x", "y"); auto& v = np->*get(NamesTag()); v.reserve(n); for (unsigned i = 0; i < n; ++i) v.push_back(buf + offs[i]); return np; }
  catch (...) { return 0; }
}
// object image of NameProvider holding only names_ (name(i) for an existing line touches nothing else)
W void* w_np_make_img(const char* buf, const unsigned* offs, unsigned n) {
  try { char* st = static_cast<char*>(operator new(sizeof(mp::NameProvider))); for (unsigned long i = 0; i < sizeof(mp::NameProvider); ++i) st[i] = 0;
        auto* np = reinterpret_cast<mp::NameProvider*>(st); auto& v = *new (&(np->*get(NamesTag()))) std::vector<const char*>(); v.reserve(n);
        for (unsigned i = 0; i < n; ++i) v.push_back(buf + offs[i]); return np; }
  catch (...) { return 0; }
}
