from vfeng import Unit, Harness
PROPERTY = 'C01'
RB = ['_ZSt18_Rb_tree_incrementPKSt18_Rb_tree_node_base', '_ZSt18_Rb_tree_incrementPSt18_Rb_tree_node_base', '_ZSt18_Rb_tree_decrementPSt18_Rb_tree_node_base', '_ZSt18_Rb_tree_decrementPKSt18_Rb_tree_node_base', '_ZSt29_Rb_tree_insert_and_rebalancebPSt18_Rb_tree_node_baseS0_RS_', '_ZNSt8_Rb_treeIiSt4pairIKidESt10_Select1stIS2_ESt4lessIiESaIS2_EE8_M_eraseEPSt13_Rb_tree_nodeIS2_E']
NAMES = ['and', 'or', 'min', 'max', 'abs', 'ifthen', 'not', 'count']
def units(tier):
    u = Unit('redef', 'wrap.cc', 'harness.c', externs=RB + ['vf_rc_lin', 'vf_rc_ind', 'vf_rc_addvars', 'vf_rc_defvar', '_ZN3fmt14BasicFormatterIcNS_12ArgFormatterIcEEE6formatENS_15BasicCStringRefIcEE'], extra_repo_cc=['src/std_constr.cc'], ll2c_args=['--inline-mem', '1024'])
    u.stub_undefined = True; u.tool_c = ['vf_rbtree.c']; u.tv = False
    return [u]
def harnesses(tier):
    A = ['the model converter is a recorder of the constraints / auxiliary variables the REAL redefinition emits; BasicFuncConstrCvt::Convert (the real dispatcher) chooses the directions from the context and the result bounds',
         'points: integers in [-1000, 1000] (binary for logical arguments, results and auxiliary flags): with the +-1 coefficients these redefinitions use, constraint evaluation is exact; auxiliary flags universally quantified for soundness, given by a witness (arg attaining min/max, sign of x) for completeness',
         'context semantics: positive r <= f, negative r >= f, mixed r == f (flat/context.h)']
    hs = []
    for w in range(8):
        for n in ((2, 3) if w < 4 or w == 7 else (1,) if w in (4, 6) else (3,)):
            if tier == 'quick' and n == 3 and 2 <= w < 4: continue
            if tier == 'quick' and w < 2: continue      # and / or: their rows go through LinTerms::sort_terms / std::map (loops symex cannot bound): > 16 GB / no verdict in 300 s; attempted in the thorough tier only
            for ctx in ((3,) if w == 7 else (1, 2, 3)):      # count converts identically in every context
                h = Harness('h_reform', 'redef', unwind=10, timeout=300 if tier == 'quick' else 1800, mem_gb=16 if w >= 2 else 40, defines=['WHICH=%d' % w, 'NARGS=%d' % n, 'CTX=%d' % ctx], tv_cases=0, flags=['--object-bits', '10'], assumptions=A,
                            bounds='%s over %d argument(s), context %s; every integer point in [-1000,1000]^k, every auxiliary assignment' % (NAMES[w], n, {1: 'positive', 2: 'negative', 3: 'mixed'}[ctx]),
                            claims='MIP redefinition of %s: the emitted linear / indicator constraints hold at a point (for some auxiliary values) iff the original functional constraint holds there in its context' % NAMES[w])
                h.label = 'h_reform[%s,n%d,ctx%d]' % (NAMES[w], n, ctx); hs.append(h)
    return hs
