// C01 harness TU: the real MIP redefinitions of and / or / min / max / abs (include/mp/flat/redef/MIP/*.h) with their real dispatcher
// BasicFuncConstrCvt::Convert (context and result-bound dependent choice of directions), on a recording model converter.
#include <vector>
#include "mp/flat/constr_std.h"
#include "mp/flat/redef/redef_base.h"
#include "mp/flat/redef/MIP/logical_and.h"
#include "mp/flat/redef/MIP/logical_or.h"
#include "mp/flat/redef/MIP/min_max.h"
#include "mp/flat/redef/MIP/abs.h"
#include "mp/flat/redef/MIP/ifthenelse.h"
#include "mp/flat/redef/MIP/logical_not.h"
#include "mp/flat/redef/MIP/count.h"
extern "C" {
void vf_rc_lin(int kind, int n, const double* coefs, const int* vars, double rhs);                       // kind: -1 <=, 0 ==, 1 >=
void vf_rc_ind(int bvar, int bval, int kind, int n, const double* coefs, const int* vars, double rhs);  // bvar == bval  ==>  linear constraint
int vf_rc_addvars(int n, double lb, double ub, int is_int);
int vf_rc_defvar(int n, const double* coefs, const int* vars, double constant);                           // new variable := affine expression; returns its index                                              // returns the first new index
}
struct MC {
  double rlb, rub;
  double lb(int) const { return rlb; } double ub(int) const { return rub; }      // queried for the result variable only
  template <int K> static int sgn() { return K < 0 ? -1 : K > 0 ? 1 : 0; }
  template <int K> int AddConstraint(mp::AlgebraicConstraint<mp::LinTerms, mp::AlgConRhs<K> > c) {
    vf_rc_lin(sgn<K>(), (int)c.GetBody().size(), c.GetBody().coefs().data(), c.GetBody().vars().data(), c.rhs()); return 0; }
  template <int K> int AddConstraint(mp::IndicatorConstraint<mp::AlgebraicConstraint<mp::LinTerms, mp::AlgConRhs<K> > > ic) {
    const auto& c = ic.get_constraint();
    vf_rc_ind(ic.get_binary_var(), ic.get_binary_value(), sgn<K>(), (int)c.GetBody().size(), c.GetBody().coefs().data(), c.GetBody().vars().data(), c.rhs()); return 0; }
  std::vector<int> AddVars_returnIds(std::size_t n, double lb, double ub, mp::var::Type t) { int f = vf_rc_addvars((int)n, lb, ub, t == mp::var::INTEGER); std::vector<int> r(n); for (std::size_t i = 0; i < n; ++i) r[i] = f + (int)i; return r; }
  int AddVar(double lb, double ub, mp::var::Type t) { return vf_rc_addvars(1, lb, ub, t == mp::var::INTEGER); }
  bool is_fixed(int) const { return false; }      // then / else are (non-fixed) variables
  double fixed_value(int) const { return 0; }
  bool is_binary_var(int) const { return true; }      // count: the arguments are binary variables (the reifying branch for other arguments is outside the claim)
  template <class FC> int AssignResultVar2Args(FC&&) { __builtin_trap(); }
  int AssignResultVar2Args(mp::LinearFunctionalConstraint&& fc) { const auto& ae = fc.GetAffineExpr(); return vf_rc_defvar((int)ae.size(), ae.coefs().data(), ae.vars().data(), ae.constant_term()); }
};
#define W extern "C" __attribute__((noinline))
template <class Con, class Cvt> static int run(MC& mc, int nargs, int ctx) {
  std::vector<int> a(nargs); for (int i = 0; i < nargs; ++i) a[i] = i;
  Con c(a); c.SetResultVar(nargs); c.SetContext(mp::Context((mp::Context::CtxVal)ctx));
  Cvt cvt(mc); cvt.Convert(c, 0); return 0;
}
// which: 0 and, 1 or, 2 min, 3 max, 4 abs, 5 if-then-else (condition = variable 0, then = 1, else = 2, result = 3); ctx: 1 positive, 2 negative, 3 mixed; arguments are variables 0..nargs-1, the result is variable nargs
W int w_convert(int which, int nargs, int ctx, double rlb, double rub) {
  try {
    MC mc; mc.rlb = rlb; mc.rub = rub;
    switch (which) {
      case 0: return run<mp::AndConstraint, mp::AndConverter_MIP<MC> >(mc, nargs, ctx);
      case 1: return run<mp::OrConstraint, mp::OrConverter_MIP<MC> >(mc, nargs, ctx);
      case 2: return run<mp::MinConstraint, mp::MinConverter_MIP<MC> >(mc, nargs, ctx);
      case 3: return run<mp::MaxConstraint, mp::MaxConverter_MIP<MC> >(mc, nargs, ctx);
      case 7: return run<mp::CountConstraint, mp::CountConverter_MIP<MC> >(mc, nargs, ctx);
      case 6: { mp::NotConstraint c({0}); c.SetResultVar(1); c.SetContext(mp::Context((mp::Context::CtxVal)ctx)); mp::NotConverter_MIP<MC> cvt(mc); cvt.Convert(c, 0); return 0; }
      case 5: { mp::IfThenConstraint c({0, 1, 2}); c.SetResultVar(3); c.SetContext(mp::Context((mp::Context::CtxVal)ctx)); mp::IfThenElseConverter_MIP<MC> cvt(mc); cvt.Convert(c, 0); return 0; }
      case 4: { mp::AbsConstraint c({0}); c.SetResultVar(1); c.SetContext(mp::Context((mp::Context::CtxVal)ctx)); mp::AbsConverter_MIP<MC> cvt(mc); cvt.Convert(c, 0); return 0; }
    }
    return 2;
  } catch (...) { return 3; }
}
