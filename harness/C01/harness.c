/* C01 (restricted): the MIP reformulations of and / or / min / max / abs are equivalent to the constraint they replace, in the context
 * the constraint carries.  The real converter emits linear and indicator constraints into a recorder; the harness evaluates them at a
 * symbolic integer point (all coefficients the converters use are +-1, so evaluation needs additions of small integers only: exact). */
#include "vf_harness.h"
#ifndef WHICH
#define WHICH 0
#endif
#ifndef NARGS
#define NARGS 2
#endif
#ifndef CTX
#define CTX 3
#endif
#define MAXC 8
#define MAXT 4
#define MAXVAR 8
static struct { s32 ind_var, ind_val, kind; u32 n; double c[MAXT]; s32 v[MAXT]; double rhs; } con[MAXC]; static u32 ncon; static int rec_bad;
static u32 nvar; static u32 aux_first, naux; static int aux_int = 1; static double aux_lb = 0, aux_ub = 1;
static void rec(s32 iv, s32 ival, u32 kind, u32 n, char *coefs, char *vars, double rhs) {
  if (ncon >= MAXC || n > MAXT) { rec_bad = 1; return; }
  con[ncon].ind_var = iv; con[ncon].ind_val = ival; con[ncon].kind = (s32)kind; con[ncon].n = n; con[ncon].rhs = rhs;
  for (u32 t = 0; t < MAXT; t++) { if (t >= n) break; con[ncon].c[t] = ((double *)coefs)[t]; con[ncon].v[t] = ((s32 *)vars)[t]; }
  ncon++;
}
void vf_rc_lin(u32 kind, u32 n, char *coefs, char *vars, double rhs) { rec(-1, 0, kind, n, coefs, vars, rhs); }
void vf_rc_ind(u32 bvar, u32 bval, u32 kind, u32 n, char *coefs, char *vars, double rhs) { rec((s32)bvar, (s32)bval, kind, n, coefs, vars, rhs); }
static double val[MAXVAR];
/* a variable defined by the converter as an affine expression: recorded as the equality  v - expr == constant  plus a witness rule */
static s32 def_var = -1; static u32 def_n; static double def_c[MAXT], def_k; static s32 def_v[MAXT];
u32 vf_rc_defvar(u32 n, char *coefs, char *vars, double k) { u32 id = nvar++; def_var = (s32)id; def_n = n; def_k = k; for (u32 t = 0; t < MAXT; t++) { if (t >= n) break; def_c[t] = ((double *)coefs)[t]; def_v[t] = ((s32 *)vars)[t]; } return id; }
static double def_value(void) { double s = def_k; for (u32 t = 0; t < MAXT; t++) { if (t >= def_n) break; if (def_c[t] == 1.0) s = s + val[def_v[t]]; else s = s - val[def_v[t]]; } return s; }
u32 vf_rc_addvars(u32 n, double lb, double ub, u32 is_int) { u32 f = nvar; if (naux == 0) aux_first = f; naux += n; nvar += n; if (!(lb == 0.0 && ub == 1.0 && is_int)) aux_int = 0; return f; }
#ifndef VF_REAL
void _ZN3fmt14BasicFormatterIcNS_12ArgFormatterIcEEE6formatENS_15BasicCStringRefIcEE(char *self, char *fmt) { }
#endif
/* all recorded constraints hold at val[] ? (coefficients must be +-1: asserted) */
static int holds_all(void) {
  int ok = 1;
  for (u32 k = 0; k < MAXC; k++) { if (k >= ncon) break;
    if (con[k].ind_var >= 0) { double b = val[con[k].ind_var]; if (!(b == (double)con[k].ind_val)) continue; }      /* indicator not active */
    double lhs = 0.0;
    for (u32 t = 0; t < MAXT; t++) { if (t >= con[k].n) break; double x = val[con[k].v[t]]; if (con[k].c[t] == 1.0) lhs = lhs + x; else lhs = lhs - x; }
    int h = con[k].kind < 0 ? lhs <= con[k].rhs : con[k].kind > 0 ? lhs >= con[k].rhs : lhs == con[k].rhs;
    if (!h) ok = 0; }
  if (def_var >= 0 && !(val[def_var] == def_value())) ok = 0;      /* the defining equation of a converter-defined variable */
  return ok;
}
void h_reform(void) {
  const int logical = WHICH <= 1 || WHICH == 6; const u32 nargs = (WHICH == 4 || WHICH == 6) ? 1 : WHICH == 5 ? 3 : NARGS; const u32 R = nargs;      /* result variable index */
  /* result variable domain: logical results are binary, possibly fixed; numeric results are free */
  double rlb, rub;
  if (logical) { u32 fx = (u32)vf_ndrange(0, 2); rlb = fx == 2 ? 1.0 : 0.0; rub = fx == 1 ? 0.0 : 1.0; } else { rlb = vf_bits2d(0xfff0000000000000ULL); rub = vf_bits2d(0x7ff0000000000000ULL); }
  ncon = 0; rec_bad = 0; nvar = nargs + 1; naux = 0; aux_int = 1; def_var = -1; def_n = 0;
  u32 rc = w_convert(WHICH, nargs, CTX, rlb, rub);
  VF_ASSERT(rc == 0 && !rec_bad, "conversion succeeds and emits linear / indicator constraints over the item's variables");
  for (u32 k = 0; k < MAXC; k++) { if (k >= ncon) break; for (u32 t = 0; t < MAXT; t++) { if (t >= con[k].n) break;
      VF_ASSERT(con[k].c[t] == 1.0 || con[k].c[t] == -1.0, "coefficient +-1"); VF_ASSERT(con[k].v[t] >= 0 && (u32)con[k].v[t] < nvar, "variable of the item or a new auxiliary variable"); } }
  VF_ASSERT(aux_int && naux <= MAXVAR - nargs - 1, "auxiliary variables are binary");
  for (u32 t = 0; t < MAXT; t++) { if (t >= def_n) break; VF_ASSERT((def_c[t] == 1.0 || def_c[t] == -1.0) && def_v[t] >= 0 && (u32)def_v[t] < nvar, "defined variable: affine with +-1 coefficients over existing variables"); }
  /* symbolic point: small integers (exact arithmetic); logical arguments / results binary; result inside its domain */
  for (u32 i = 0; i < MAXVAR; i++) { s32 t = (s32)vf_nd32(); VF_REQUIRE(t >= -1000 && t <= 1000); if (logical || (i > R && (s32)i != def_var) || (WHICH == 5 && i == 0) || (WHICH == 7 && i < R)) VF_REQUIRE(t == 0 || t == 1); val[i] = (double)t; }
  VF_REQUIRE(val[R] >= rlb && val[R] <= rub);
  double f;
  if (WHICH == 0) { f = 1.0; for (u32 i = 0; i < nargs; i++) if (val[i] == 0.0) f = 0.0; }
  else if (WHICH == 1) { f = 0.0; for (u32 i = 0; i < nargs; i++) if (val[i] != 0.0) f = 1.0; }
  else if (WHICH == 2) { f = val[0]; for (u32 i = 1; i < nargs; i++) if (val[i] < f) f = val[i]; }
  else if (WHICH == 3) { f = val[0]; for (u32 i = 1; i < nargs; i++) if (val[i] > f) f = val[i]; }
  else if (WHICH == 5) f = val[0] != 0.0 ? val[1] : val[2];
  else if (WHICH == 6) f = val[0] != 0.0 ? 0.0 : 1.0;
  else if (WHICH == 7) { f = 0.0; for (u32 i = 0; i < nargs; i++) if (val[i] != 0.0) f = f + 1.0; }
  else f = val[0] < 0 ? -val[0] : val[0];
  double r = val[R];
  /* meaning of the item in its context: positive: r <= f (r true implies f true), negative: r >= f, mixed: r == f */
  int meaning = (CTX == 1) ? r <= f : (CTX == 2) ? r >= f : r == f;
  /* (1) soundness: whatever the auxiliary variables are, the emitted constraints imply the item */
  int o_any = holds_all();
  if (o_any) VF_ASSERT(meaning, "the reformulation admits a point that violates the original constraint (in its context)");
  /* (2) completeness: every point of the original model (result = function value) extends to the reformulation: witness for the auxiliary
   * flags.  (A reformulation may be tighter than the context requires, e.g. an equality in a positive context; it must never lose r == f.) */
  if (r == f) {
    for (u32 j = 0; j < MAXVAR; j++) { if (j >= naux) break; u32 id = aux_first + j; double w = 0.0;
      if (WHICH == 2 || WHICH == 3) { if (j < nargs && val[j] == f) w = 1.0; }          /* flag of an argument attaining the min / max */
      else if (WHICH == 4) w = val[0] <= 0.0 ? 1.0 : 0.0;                               /* abs: flag = 1 selects r <= -x */
      val[id] = w; }
    if (def_var >= 0) val[def_var] = def_value();
    VF_ASSERT(holds_all(), "the reformulation cuts off a point of the original model (result = function value)");
  }
  VF_WITNESS();
}
