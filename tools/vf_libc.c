/* Models of the C library functions that translated code calls (renamed vf_c_<name> by ll2c).
 * Plain C, used identically under CBMC and natively.  Each can be disabled with -DVF_NO_<name>
 * when a harness supplies its own environment model. */
#include "vf_rt.h"
#ifndef VF_NO_strlen
u64 vf_c_strlen(char *s) { u64 n = 0; while (s[n]) n++; return n; }
#endif
#ifndef VF_NO_memcmp
u32 vf_c_memcmp(char *a, char *b, u64 n) { for (u64 i = 0; i < n; i++) { u8 x = (u8)a[i], y = (u8)b[i]; if (x != y) return (u32)((int)x - (int)y); } return 0; }
u32 vf_c_bcmp(char *a, char *b, u64 n) { return vf_c_memcmp(a, b, n); }
#endif
#ifndef VF_NO_strcmp
u32 vf_c_strcmp(char *a, char *b) { u64 i = 0; for (;; i++) { u8 x = (u8)a[i], y = (u8)b[i]; if (x != y) return (u32)((int)x - (int)y); if (!x) return 0; } }
u32 vf_c_strncmp(char *a, char *b, u64 n) { for (u64 i = 0; i < n; i++) { u8 x = (u8)a[i], y = (u8)b[i]; if (x != y) return (u32)((int)x - (int)y); if (!x) return 0; } return 0; }
#endif
#ifndef VF_NO_strchr
char *vf_c_strchr(char *s, u32 c) { for (;; s++) { if (*s == (char)c) return s; if (!*s) return 0; } }
char *vf_c_memchr(char *s, u32 c, u64 n) { for (u64 i = 0; i < n; i++) if (s[i] == (char)c) return s + i; return 0; }
#endif
#ifndef VF_NO_malloc
char *vf_c_malloc(u64 n) { return vf_malloc(n); }
void vf_c_free(char *p) { vf_free(p); }
char *vf_c_calloc(u64 a, u64 b) { char *p = vf_malloc(a * b); memset(p, 0, a * b); return p; }
#endif
#ifndef VF_NO_abort
void vf_c_abort(void) { vf_terminated = 1; VF_CHK(0, "abort() reached"); VF_ASSUME(0); }
#endif
#ifndef VF_NO_ctype
u32 vf_c_isspace(u32 c) { return c == ' ' || (c >= 9 && c <= 13); }
u32 vf_c_isdigit(u32 c) { return c >= '0' && c <= '9'; }
u32 vf_c_tolower(u32 c) { return (c >= 'A' && c <= 'Z') ? c + 32 : c; }
u32 vf_c_toupper(u32 c) { return (c >= 'a' && c <= 'z') ? c - 32 : c; }
#endif
