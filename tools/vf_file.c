/* Deterministic model of <stdio.h> reading over ONE symbolic byte array (the "file"), plus faithful models of
 * strtol / strtod end-pointer behaviour.  Used by the SOL-reader harnesses (C14, C05): the file content is the
 * symbolic input; a counterexample is replayed by writing the same bytes to a real file and running the real
 * g++/ASan build with the real libc.  Names carry the vf_c_ prefix that ll2c gives to libc calls. */
#include "vf_rt.h"
#ifndef VF_FILEMAX
#define VF_FILEMAX 32
#endif
u8 vf_fbytes[VF_FILEMAX + 1]; u32 vf_flen, vf_fpos; int vf_fopen_fails, vf_strtod_inexact;
static char vf_fhandle[16];
static int vf_isspace(int c) { return c == ' ' || (c >= 9 && c <= 13); }
static int vf_isdigit(int c) { return c >= '0' && c <= '9'; }
static int vf_lower(int c) { return (c >= 'A' && c <= 'Z') ? c + 32 : c; }
static int vf_isxdigit(int c) { c = vf_lower(c); return vf_isdigit(c) || (c >= 'a' && c <= 'f'); }
static int vf_isalnum_(int c) { c = vf_lower(c); return vf_isdigit(c) || (c >= 'a' && c <= 'z') || c == '_'; }

char *vf_c_fopen(char *path, char *mode) { vf_fpos = 0; return vf_fopen_fails ? (char *)0 : vf_fhandle; }
u32 vf_c_fclose(char *f) { return 0; }
void vf_c_rewind(char *f) { vf_fpos = 0; }
u64 vf_c_fread(char *p, u64 size, u64 nmemb, char *f) {
  if (size == 0 || nmemb == 0) return 0;
  u64 done = 0;
  for (u64 k = 0; k < nmemb; k++) {                      /* whole items only (partial trailing item is consumed, as in libc) */
    u64 avail = vf_flen - vf_fpos;
    if (avail < size) { for (u64 i = 0; i < avail; i++) p[k * size + i] = (char)vf_fbytes[vf_fpos + i]; vf_fpos = vf_flen; break; }
    for (u64 i = 0; i < size; i++) p[k * size + i] = (char)vf_fbytes[vf_fpos + i];
    vf_fpos += (u32)size; done++;
  }
  return done;
}
char *vf_c_fgets(char *s, u32 n, char *f) {
  if ((s32)n <= 0) return 0;
  if (n == 1) { s[0] = 0; return s; }
  u32 k = 0;
  while (k + 1 < n && vf_fpos < vf_flen) { u8 c = vf_fbytes[vf_fpos++]; s[k++] = (char)c; if (c == '\n') break; }
  if (k == 0) return 0;
  s[k] = 0; return s;
}
u32 vf_c_getc(char *f) { if (vf_fpos < vf_flen) return vf_fbytes[vf_fpos++]; return (u32)-1; }
u32 vf_c_ungetc(u32 c, char *f) {
  if (c == (u32)-1) return (u32)-1;
  VF_ASSUME(vf_fpos > 0 && vf_fbytes[vf_fpos - 1] == (u8)c);   /* the readers only push back the byte just read */
  vf_fpos--; return c;
}
/* writing: bytes are appended to the same array (the harnesses write a file, then read it back) */
u32 vf_c_fputc(u32 c, char *f) { VF_ASSUME(vf_flen < VF_FILEMAX); vf_fbytes[vf_flen++] = (u8)c; return (u8)c; }
u32 vf_c_putc(u32 c, char *f) { return vf_c_fputc(c, f); }
u64 vf_c_fwrite(char *p, u64 size, u64 nmemb, char *f) {
  u64 n = size * nmemb; VF_ASSUME(n <= VF_FILEMAX && vf_flen + n <= VF_FILEMAX);
  for (u64 i = 0; i < VF_FILEMAX; i++) { if (i >= n) break; vf_fbytes[vf_flen + i] = (u8)p[i]; }
  vf_flen += (u32)n; return nmemb;
}
u32 vf_c_fflush(char *f) { return 0; }
u32 vf_c_ferror(char *f) { return 0; }
static u32 vf_errno_cell;
char *vf_c___errno_location(void) { return (char *)&vf_errno_cell; }
char *vf_c_strcpy(char *d, char *s) { u64 i = 0; for (;; i++) { d[i] = s[i]; if (!s[i]) break; } return d; }

/* strtol, base 10: [space]* [+-] digit+ ; no digits => end = start, value 0; saturates like libc */
u64 vf_c_strtol(char *s, char *endp, u32 base) {
  VF_ASSUME(base == 10);
  char *p = s; while (vf_isspace((u8)*p)) p++;
  int neg = 0; if (*p == '+' || *p == '-') { neg = (*p == '-'); p++; }
  if (!vf_isdigit((u8)*p)) { if (endp) *(char **)endp = s; return 0; }
  u64 acc = 0; int sat = 0;
  while (vf_isdigit((u8)*p)) { u64 d = (u64)(*p - '0'); if (acc > (0x7fffffffffffffffULL - d) / 10) sat = 1; else acc = acc * 10 + d; p++; }
  if (endp) *(char **)endp = p;
  if (sat || (!neg && acc > 0x7fffffffffffffffULL)) return neg ? 0x8000000000000000ULL : 0x7fffffffffffffffULL;
  return neg ? (u64)(-(s64)acc) : acc;
}
/* strtod: exact end pointer for decimal / hex / inf / nan syntax; the VALUE is exact for plain integers of
 * <= 15 digits (incl. sign) and for inf/nan, otherwise an arbitrary finite double (vf_strtod_inexact is set) */
#ifdef __CPROVER__
u64 nondet_u64(void);
#define VF_ANYBITS() nondet_u64()
#define VF_ANYVAL(s) vf_bits2d(VF_ANYBITS())
#else
double strtod(const char *, char **);
#define VF_ANYVAL(s) strtod((s), 0)     /* native runs of the translated code: the value libc gives */
#endif
vf_f64 vf_c_strtod(char *s, char *endp) {
  char *p = s; while (vf_isspace((u8)*p)) p++;
  int neg = 0; if (*p == '+' || *p == '-') { neg = (*p == '-'); p++; }
  char *e = p; vf_f64 val;
  if (vf_lower((u8)p[0]) == 'i' && vf_lower((u8)p[1]) == 'n' && vf_lower((u8)p[2]) == 'f') {
    e = p + 3;
    if (vf_lower((u8)p[3]) == 'i' && vf_lower((u8)p[4]) == 'n' && vf_lower((u8)p[5]) == 'i' && vf_lower((u8)p[6]) == 't' && vf_lower((u8)p[7]) == 'y') e = p + 8;
    val = vf_bits2d(neg ? 0xfff0000000000000ULL : 0x7ff0000000000000ULL);
  } else if (vf_lower((u8)p[0]) == 'n' && vf_lower((u8)p[1]) == 'a' && vf_lower((u8)p[2]) == 'n') {
    e = p + 3;
    if (*e == '(') { char *q = e + 1; while (vf_isalnum_((u8)*q)) q++; if (*q == ')') e = q + 1; }
    val = vf_bits2d(0x7ff8000000000000ULL);
  } else if (p[0] == '0' && vf_lower((u8)p[1]) == 'x' && (vf_isxdigit((u8)p[2]) || (p[2] == '.' && vf_isxdigit((u8)p[3])))) {
    char *q = p + 2; while (vf_isxdigit((u8)*q)) q++;
    if (*q == '.') { q++; while (vf_isxdigit((u8)*q)) q++; }
    if (vf_lower((u8)*q) == 'p') { char *r = q + 1; if (*r == '+' || *r == '-') r++; if (vf_isdigit((u8)*r)) { while (vf_isdigit((u8)*r)) r++; q = r; } }
    e = q; vf_strtod_inexact = 1; val = VF_ANYVAL(s); VF_ASSUME(val == val);
  } else {
    char *q = p; int nd = 0, plain = 1; u64 acc = 0;
    while (vf_isdigit((u8)*q)) { if (nd < 15) acc = acc * 10 + (u64)(*q - '0'); nd++; q++; }
    int nf = 0;
    if (*q == '.') { char *r = q + 1; while (vf_isdigit((u8)*r)) { r++; nf++; } if (nd + nf > 0) { q = r; plain = 0; } }
    if (nd + nf == 0) { if (endp) *(char **)endp = s; return vf_bits2d(0); }
    if (vf_lower((u8)*q) == 'e') { char *r = q + 1; if (*r == '+' || *r == '-') r++; if (vf_isdigit((u8)*r)) { while (vf_isdigit((u8)*r)) r++; q = r; plain = 0; } }
    e = q;
    if (plain && nd <= 15) { val = (vf_f64)(s64)acc; if (neg) val = -val; }
    else { vf_strtod_inexact = 1; val = VF_ANYVAL(s); VF_ASSUME(val == val); }
  }
  if (endp) *(char **)endp = e;
  return val;
}
/* locale-independent variants used by fmt::Locale::strtod */
static char vf_locale_obj[8];
char *vf_c_newlocale(u32 mask, char *name, char *base) { return vf_locale_obj; }
void vf_c_freelocale(char *loc) { }
vf_f64 vf_c_strtod_l(char *s, char *endp, char *loc) { return vf_c_strtod(s, endp); }
