#!/usr/bin/env python3
"""ll2c: LLVM-14 IR (clang++ -O1, typed pointers) -> C for CBMC / native execution.
Usage: ll2c.py in.ll -o gen.c [-H gen.h] [--report r.json] [--extern NAME]... [--keep REGEX]
       [--yield REGEX] [--redirect CALLER_RE:CALLEE=NEW]... [--no-nsw REGEX]
Every memory access is *(T*)(base+byte_offset); pointers are char*; integers are unsigned
C types with explicit masking; UB-carrying flags (nsw/nuw, div by zero, fptoi range) become VF_CHK."""
import sys, re, json, struct, argparse
from llir import *

RT_PROVIDED = {'__cxa_allocate_exception', '__cxa_free_exception', '__cxa_throw', '__cxa_begin_catch', '__cxa_end_catch',
  '__cxa_rethrow', '__cxa_get_exception_ptr', '_Znwm', '_Znam', '_ZdlPv', '_ZdaPv', '_ZdlPvm', '_ZdaPvm',
  '_ZNSt9exceptionD2Ev', '_ZNSt9exceptionD1Ev', '_ZNSt13runtime_errorD2Ev', '_ZNSt13runtime_errorD1Ev', '_ZNSt11logic_errorD2Ev',
  '__clang_call_terminate', '_ZSt9terminatev', '__cxa_call_unexpected', '__gxx_personality_v0',
  '_ZNSt13runtime_errorC2EPKc', '_ZNSt13runtime_errorC1EPKc', '_ZNSt13runtime_errorC1ERKNSt7__cxx1112basic_stringIcSt11char_traitsIcESaIcEEE',
  '_ZNSt13runtime_errorC2ERKNSt7__cxx1112basic_stringIcSt11char_traitsIcESaIcEEE', '_ZNKSt13runtime_error4whatEv', '_ZNSt13runtime_erroraSEOS_',
  '_ZNSt11logic_errorC2EPKc', '_ZNSt11logic_errorC1EPKc'}
# libstdc++ throw helpers -> typeinfo thrown
STD_THROW = {
  '_ZSt20__throw_length_errorPKc': '_ZTISt12length_error', '_ZSt17__throw_bad_allocv': '_ZTISt9bad_alloc',
  '_ZSt19__throw_logic_errorPKc': '_ZTISt11logic_error', '_ZSt24__throw_out_of_range_fmtPKcz': '_ZTISt12out_of_range',
  '_ZSt20__throw_out_of_rangePKc': '_ZTISt12out_of_range', '_ZSt28__throw_bad_array_new_lengthv': '_ZTISt20bad_array_new_length',
  '_ZSt21__throw_runtime_errorPKc': '_ZTISt13runtime_error', '_ZSt24__throw_invalid_argumentPKc': '_ZTISt16invalid_argument',
  '_ZSt16__throw_bad_castv': '_ZTISt8bad_cast', '_ZSt25__throw_bad_function_callv': '_ZTISt17bad_function_call',
  '_ZSt20__throw_system_errori': '_ZTISt12system_error', '_ZSt21__throw_bad_exceptionv': '_ZTISt13bad_exception',
  '_ZSt22__throw_overflow_errorPKc': '_ZTISt14overflow_error', '_ZSt20__throw_domain_errorPKc': '_ZTISt12domain_error'}
STD_BASES = {
  '_ZTISt9exception': [], '_ZTISt13runtime_error': ['_ZTISt9exception'], '_ZTISt11logic_error': ['_ZTISt9exception'],
  '_ZTISt12length_error': ['_ZTISt11logic_error'], '_ZTISt12out_of_range': ['_ZTISt11logic_error'],
  '_ZTISt16invalid_argument': ['_ZTISt11logic_error'], '_ZTISt12domain_error': ['_ZTISt11logic_error'],
  '_ZTISt14overflow_error': ['_ZTISt13runtime_error'], '_ZTISt11range_error': ['_ZTISt13runtime_error'],
  '_ZTISt15underflow_error': ['_ZTISt13runtime_error'], '_ZTISt9bad_alloc': ['_ZTISt9exception'],
  '_ZTISt20bad_array_new_length': ['_ZTISt9bad_alloc'], '_ZTISt8bad_cast': ['_ZTISt9exception'],
  '_ZTISt10bad_typeid': ['_ZTISt9exception'], '_ZTISt13bad_exception': ['_ZTISt9exception'],
  '_ZTISt12system_error': ['_ZTISt13runtime_error'], '_ZTINSt8ios_base7failureB5cxx11E': ['_ZTISt12system_error'],
  '_ZTISt17bad_function_call': ['_ZTISt9exception']}

LIBC_MODELLED = {'strlen', 'memcmp', 'bcmp', 'strcmp', 'strncmp', 'strchr', 'memchr', 'malloc', 'free', 'calloc', 'abort',
  'isspace', 'isdigit', 'tolower', 'toupper'}
class Unsupported(Exception): pass

def cid(name):
    s = re.sub(r'[^A-Za-z0-9_]', '_', name)
    if not s or s[0].isdigit(): s = '_' + s
    return s

class Emitter:
    def __init__(s, mod, opts):
        s.m = mod; s.L = Layout(mod); s.o = opts
        s.aggs = {}; s.agg_defs = []
        s.gnames = {}; s.used = set()
        s.typeids = {}
        s.sites = []
        s.icall_protos = set(); s.redirect_protos = {}
        s.out = []
        s.report = {'functions': {}, 'externals': {}, 'globals_external': [], 'yield_sites': s.sites}
        for n in list(mod.globals) + list(mod.funcs): s.gname(n)
        for a, t in mod.aliases.items():
            while t in mod.aliases: t = mod.aliases[t]
            s.gnames[a] = s.gname(t)
            if t in mod.funcs: mod.funcs[a] = mod.funcs[t]
            elif t in mod.globals: mod.globals[a] = mod.globals[t]

    # ---------------- names
    def is_libc(s, n):
        """unmangled, declared-only symbol (C library / environment): renamed vf_c_<n> so that no
        system header or CBMC built-in model is picked up silently"""
        if re.match(r'(_Z|llvm\.|__cxa_|vf_|nondet_|__CPROVER|__gxx_|__clang_)', n): return False
        if n in RT_PROVIDED: return False
        f = s.m.funcs.get(n); g = s.m.globals.get(n)
        if f is not None: return not f.defined
        if g is not None: return g.external
        return False
    def gname(s, n):
        if n in s.gnames: return s.gnames[n]
        c = cid(n)
        if c != n: c = 'g_' + c
        elif s.is_libc(n): c = 'vf_c_' + c
        base = c; k = 0
        while c in s.used: k += 1; c = '%s_%d' % (base, k)
        s.used.add(c); s.gnames[n] = c; return c

    # ---------------- types
    def res(s, t): return s.L.res(t)
    def ctype(s, t):
        t = s.res(t); k = t.k
        if k == 'void': return 'void'
        if k == 'int':
            if t.n <= 8: return 'u8'
            if t.n <= 16: return 'u16'
            if t.n <= 32: return 'u32'
            if t.n <= 64: return 'u64'
            if t.n <= 128: return 'u128'
            raise Unsupported('int width %d' % t.n)
        if k in ('ptr', 'func'): return 'char*'
        if k == 'double': return 'vf_f64'
        if k == 'float': return 'vf_f32'
        if k == 'x86_fp80': return 'vf_f80'
        if k in ('struct', 'array'): return s.agg(t)
        raise Unsupported('type %r' % t)
    def agg(s, t):
        key = s.L.res(t).key() if t.k != 'struct' else repr([s.canon(f) for f in t.fields]) + str(t.packed)
        key = s.canon(t)
        if key in s.aggs: return s.aggs[key]
        name = 'struct agg_%d' % len(s.aggs); s.aggs[key] = name
        if t.k == 'struct':
            body = ' '.join('%s f%d;' % (s.ctype(f), i) for i, f in enumerate(t.fields)) or 'char dummy;'
        else:
            body = '%s e[%d];' % (s.ctype(t.elem), max(t.n, 1))
        s.agg_defs.append('%s { %s };' % (name, body))
        return name
    def canon(s, t):
        t = s.res(t)
        if t.k == 'struct': return ('<{%s}>' if t.packed else '{%s}') % ','.join(s.canon(f) for f in t.fields)
        if t.k == 'array': return '[%d x %s]' % (t.n, s.canon(t.elem))
        if t.k in ('ptr', 'func'): return 'p'
        return repr(t)
    def memtype(s, t):
        """C type mirroring the in-memory layout of LLVM type t with typed leaves (pointers stay pointers for CBMC);
        returns (decl_prefix, suffix) such that `prefix NAME suffix;` declares an object"""
        t = s.res(t); k = t.k
        if k == 'int':
            sz = s.L.size(t)
            if sz in (1, 2, 4, 8): return ({1: 'u8', 2: 'u16', 4: 'u32', 8: 'u64'}[sz], '')
            return ('u8', '[%d]' % sz)
        if k in ('ptr', 'func'): return ('char*', '')
        if k == 'double': return ('u64', '')
        if k == 'float': return ('u32', '')
        if k == 'x86_fp80': return ('u8', '[16]')
        if k == 'array':
            if t.n == 0: return ('u8', '[1]')
            p, suf = s.memtype(t.elem)
            if t.n > 4096 and s.res(t.elem).k == 'int': return ('u8', '[%d]' % s.L.size(t))
            return (p, '[%d]%s' % (t.n, suf))
        if k == 'struct':
            key = 'M' + s.canon(t)
            if key in s.aggs: return (s.aggs[key], '')
            name = 'struct mt_%d' % len(s.aggs); s.aggs[key] = name
            fields = []; pos = 0
            for i, f in enumerate(t.fields):
                off = s.L.field_off(t, i)
                if off > pos: fields.append('u8 pad%d[%d];' % (i, off - pos))
                fp, fs = s.memtype(f); fsz = s.L.size(f)
                if fsz: fields.append('%s f%d%s;' % (fp, i, fs))
                pos = off + fsz
            tot = s.L.size(t)
            if tot > pos: fields.append('u8 padz[%d];' % (tot - pos))
            if not fields: fields.append('u8 e;')
            s.agg_defs.append('%s { %s } __attribute__((packed));' % (name, ' '.join(fields)))
            return (name, '')
        raise Unsupported('memtype %r' % t)
    def fkind(s, t):
        k = s.res(t).k
        return {'double': 'f64', 'float': 'f32', 'x86_fp80': 'f80'}.get(k)
    def mask(s, n):
        if n in (8, 16, 32, 64, 128): return None
        return '((%s)1 << %d) - 1' % ('u128' if n > 64 else 'u64', n)
    def norm(s, expr, t):
        """mask expr to type width"""
        t = s.res(t)
        ct = s.ctype(t)
        if t.n in (8, 16, 32, 64, 128): return '(%s)(%s)' % (ct, expr)
        return '(%s)((%s) & (%s))' % (ct, expr, s.mask(t.n))
    def sx(s, expr, t):
        """signed view of int expr (as s64 or s128)"""
        t = s.res(t); n = t.n
        if n == 64: return '(s64)(%s)' % expr
        if n == 32: return '(s64)(s32)(%s)' % expr
        if n == 16: return '(s64)(s16)(%s)' % expr
        if n == 8: return '(s64)(s8)(%s)' % expr
        if n == 128: return '(s128)(%s)' % expr
        if n < 64: return 'VF_SEXT64(%s, %d)' % (expr, n)
        return 'VF_SEXT128(%s, %d)' % (expr, n)
    def wide(s, t): return 'u128' if s.res(t).n > 64 else 'u64'
    def swide(s, t): return 's128' if s.res(t).n > 64 else 's64'

    # ---------------- constants / operands
    def intlit(s, v, t):
        n = s.res(t).n; v &= (1 << n) - 1
        if n > 64: return '(((u128)UINT64_C(%d) << 64) | UINT64_C(%d))' % (v >> 64, v & (2**64 - 1))
        return '((%s)UINT64_C(%d))' % (s.ctype(t), v)
    def fpbits(s, tok, t):
        k = s.res(t).k
        if tok.startswith('0xK'):
            raw = int(tok[3:], 16); sign = raw >> 79; exp = (raw >> 64) & 0x7fff; mant = raw & (2**64 - 1)
            if exp == 0x7fff: d = float('inf') if mant << 1 & (2**64 - 1) == 0 else float('nan')
            elif exp == 0 and mant == 0: d = 0.0
            else: d = (mant / 2.0**63) * 2.0 ** (exp - 16383)
            if sign: d = -d
            return struct.unpack('<Q', struct.pack('<d', d))[0]
        if tok.startswith('0x'):
            if re.match(r'0x[LMHR]', tok): raise Unsupported('fp literal ' + tok)
            b = int(tok, 16)
            if k == 'float':
                d = struct.unpack('<d', struct.pack('<Q', b))[0]
                return struct.unpack('<I', struct.pack('<f', d))[0]
            return b
        d = float(tok)
        if k == 'float': return struct.unpack('<I', struct.pack('<f', d))[0]
        return struct.unpack('<Q', struct.pack('<d', d))[0]
    def fplit(s, tok, t):
        k = s.res(t).k; b = s.fpbits(tok, t)
        if k == 'float': return 'VF_F32_C(UINT32_C(%d))' % b
        if k == 'double': return 'VF_F64_C(UINT64_C(%d))' % b
        return 'VF_F80_C(UINT64_C(%d))' % b
    def zero(s, t):
        t = s.res(t); k = t.k
        if k == 'int': return '((%s)0)' % s.ctype(t)
        if k in ('ptr', 'func'): return '((char*)0)'
        if k == 'double': return 'VF_F64_C(UINT64_C(0))'
        if k == 'float': return 'VF_F32_C(UINT32_C(0))'
        if k == 'x86_fp80': return 'VF_F80_C(UINT64_C(0))'
        if k == 'struct':
            return '((%s){%s})' % (s.ctype(t), ', '.join(s.zero(f) for f in t.fields) or '0')
        if k == 'array':
            return '((%s){{%s}})' % (s.ctype(t), ', '.join(s.zero(t.elem) for _ in range(max(t.n, 1))))
        raise Unsupported('zero of %r' % t)
    def gaddr(s, name):
        return '((char*)&%s)' % s.gname(name)
    def const_off(s, bt, idx_vals):
        """byte offset of constant GEP indices"""
        off = 0; t = bt
        for i, iv in enumerate(idx_vals):
            if i == 0: off += iv * s.L.size(t); continue
            t = s.res(t)
            if t.k == 'struct': off += s.L.field_off(t, iv); t = t.fields[iv]
            elif t.k in ('array', 'vector'): off += iv * s.L.size(t.elem); t = t.elem
            else: raise Unsupported('gep into %r' % t)
        return off
    def val(s, v, fn=None):
        k = v.k; t = v.ty
        if k == 'int': return s.intlit(v.v, t)
        if k == 'local': return fn.lname(v.v)
        if k == 'global': return s.gaddr(v.v)
        if k == 'null': return '((char*)0)'
        if k in ('undef', 'zero'): return s.zero(t)
        if k == 'fp': return s.fplit(v.v, t)
        if k == 'struct':
            return '((%s){%s})' % (s.ctype(t), ', '.join(s.val(o, fn) for o in v.ops))
        if k == 'array':
            return '((%s){{%s}})' % (s.ctype(t), ', '.join(s.val(o, fn) for o in v.ops))
        if k == 'cstr':
            return '((%s){{%s}})' % (s.ctype(t), ', '.join(str(b) for b in v.v))
        if k == 'cexpr': return s.cexpr(v, fn)
        raise Unsupported('operand kind %s' % k)
    def cexpr(s, v, fn):
        op = v.op
        if op == 'gep':
            base = s.val(v.ops[0], fn); idx = v.ops[1:]
            if all(i.k == 'int' for i in idx):
                off = s.const_off(v.extra, [i.v for i in idx])
                return '(%s + %d)' % (base, off) if off else base
            raise Unsupported('non-constant constant-gep')
        if op in ('bitcast', 'addrspacecast'):
            a = v.ops[0]
            if s.res(a.ty).k in ('ptr', 'func') and s.res(v.ty).k in ('ptr', 'func'): return s.val(a, fn)
            raise Unsupported('const bitcast non-pointer')
        if op == 'ptrtoint': return '((%s)(u64)%s)' % (s.ctype(v.ty), s.val(v.ops[0], fn))
        if op == 'inttoptr': return '((char*)(u64)%s)' % s.val(v.ops[0], fn)
        if op in ('add', 'sub', 'mul', 'and', 'or', 'xor'):
            c = {'add': '+', 'sub': '-', 'mul': '*', 'and': '&', 'or': '|', 'xor': '^'}[op]
            return s.norm('(%s)%s %s (%s)%s' % (s.wide(v.ty), s.val(v.ops[0], fn), c, s.wide(v.ty), s.val(v.ops[1], fn)), v.ty)
        if op in ('trunc', 'zext'): return s.norm(s.val(v.ops[0], fn), v.ty)
        if op == 'icmp' and v.extra in ('eq', 'ne'):
            return '((u8)(%s %s %s))' % (s.val(v.ops[0], fn), '==' if v.extra == 'eq' else '!=', s.val(v.ops[1], fn))
        if op == 'select':
            return '(%s ? %s : %s)' % (s.val(v.ops[0], fn), s.val(v.ops[1], fn), s.val(v.ops[2], fn))
        raise Unsupported('constant expression ' + op)

    # ---------------- globals
    def flatten(s, v, t, off, out):
        """flatten constant v of type t at byte offset off into leaves (off, kind, payload)"""
        t = s.res(t); k = v.k
        size = s.L.size(t)
        if k in ('zero', 'undef') or (k == 'null' and t.k not in ('ptr', 'func')):
            if size: out.append((off, 'z', size))
            return
        if t.k == 'int':
            if k == 'int': out.append((off, 'i', (size, v.v & ((1 << (8 * size)) - 1) if v.v >= 0 else v.v & ((1 << t.n) - 1))))
            elif k == 'cexpr': out.append((off, 'x', (size, s.ctype(t), s.cexpr(v, None))))
            else: raise Unsupported('int init %s' % k)
            return
        if t.k in ('ptr', 'func'):
            out.append((off, 'p', s.val(v))); return
        if t.k in ('double', 'float'):
            out.append((off, 'i', (size, s.fpbits(v.v, t)))); return
        if t.k == 'x86_fp80':
            tok = v.v
            if tok.startswith('0xK'): raw = int(tok[3:], 16)
            else: raise Unsupported('fp80 init')
            out.append((off, 'i', (8, raw & (2**64 - 1)))); out.append((off + 8, 'i', (2, raw >> 64))); out.append((off + 10, 'z', 6)); return
        if t.k == 'array':
            if k == 'cstr':
                out.append((off, 'b', v.v)); return
            es = s.L.size(t.elem)
            for i, o in enumerate(v.ops): s.flatten(o, t.elem, off + i * es, out)
            return
        if t.k == 'struct':
            for i, o in enumerate(v.ops): s.flatten(o, t.fields[i], off + s.L.field_off(t, i), out)
            return
        raise Unsupported('global init of %r' % t)
    def emit_global(s, g, defs, decls):
        name = s.gname(g.name)
        if getattr(g, 'alias', None) is not None:
            raise Unsupported('alias ' + g.name)
        size = max(s.L.size(g.ty), 1); al = g.align or s.L.sa(g.ty)[1]
        if g.external and g.name.startswith('vf_'):
            mp_, ms_ = s.memtype(g.ty)              # defined by the harness: typed declaration only
            decls.append('extern %s %s%s;' % (mp_, name, ms_)); return
        if g.external:
            size = max(size, 64)
            s.report['globals_external'].append(g.name)
            decls.append('extern char %s[%d];' % (name, size))
            defs.append('char %s[%d] __attribute__((aligned(%d)));' % (name, size, al))
            return
        if g.init is not None and g.init.k in ('zero', 'undef') and size <= 65536:
            try:
                mp_, ms_ = s.memtype(g.ty)
                decls.append('extern %s %s%s __attribute__((aligned(%d)));' % (mp_, name, ms_, al))
                defs.append('%s %s%s __attribute__((aligned(%d)));' % (mp_, name, ms_, al))
                return
            except Unsupported: pass
        leaves = []
        s.flatten(g.init, g.ty, 0, leaves)
        leaves.sort(key=lambda x: x[0])
        fields = []; inits = []; pos = 0; fi = 0
        def pad(n):
            nonlocal fi
            fields.append('u8 pad%d[%d];' % (fi, n)); inits.append('{0}'); fi += 1
        # coalesce
        i = 0
        while i < len(leaves):
            off, kind, pl = leaves[i]
            if off < pos: raise Unsupported('overlapping init in ' + g.name)
            if off > pos: pad(off - pos); pos = off
            if kind == 'z':
                fields.append('u8 z%d[%d];' % (fi, pl)); inits.append('{0}'); fi += 1; pos += pl
            elif kind == 'b':
                fields.append('u8 b%d[%d];' % (fi, len(pl))); inits.append('{%s}' % ','.join(map(str, pl))); fi += 1; pos += len(pl)
            elif kind == 'p':
                j = i; vals = []
                while j < len(leaves) and leaves[j][1] == 'p' and leaves[j][0] == off + 8 * (j - i): vals.append(leaves[j][2]); j += 1
                fields.append('char* p%d[%d];' % (fi, len(vals))); inits.append('{%s}' % ', '.join(vals)); fi += 1; pos += 8 * len(vals); i = j; continue
            elif kind == 'i':
                sz = pl[0]; j = i; vals = []
                while j < len(leaves) and leaves[j][1] == 'i' and leaves[j][2][0] == sz and leaves[j][0] == off + sz * (j - i): vals.append(leaves[j][2][1]); j += 1
                ct = {1: 'u8', 2: 'u16', 4: 'u32', 8: 'u64'}.get(sz)
                if ct is None:
                    if sz == 16:
                        ct = 'u64'; vals = [x for v in vals for x in (v & (2**64 - 1), v >> 64)]
                    else: raise Unsupported('int size %d in global' % sz)
                fields.append('%s i%d[%d];' % (ct, fi, len(vals))); inits.append('{%s}' % ', '.join('UINT64_C(%d)' % v for v in vals)); fi += 1
                pos += sz * (j - i); i = j; continue
            elif kind == 'x':
                sz, ct, ex = pl
                fields.append('%s x%d;' % (ct, fi)); inits.append(ex); fi += 1; pos += sz
            i += 1
        if pos < size: pad(size - pos)
        tn = 'struct gt_%s' % name
        decls.append('%s { %s } __attribute__((packed, aligned(%d)));' % (tn, ' '.join(fields), al))
        decls.append('extern %s %s;' % (tn, name))
        defs.append('%s %s = { %s };' % (tn, name, ', '.join(inits)))

    # ---------------- typeinfo hierarchy
    def typeinfo_bases(s):
        bases = dict(STD_BASES)
        for n, g in s.m.globals.items():
            if not n.startswith('_ZTI') or g.init is None or g.init.k != 'struct': continue
            bs = []
            for o in g.init.ops[2:]:
                x = o
                while x.k == 'cexpr' and x.op in ('bitcast', 'gep'): x = x.ops[0]
                if x.k == 'global' and x.v.startswith('_ZTI'): bs.append(x.v)
            bases[n] = bs
        return bases
    def emit_exc_matches(s):
        bases = s.typeinfo_bases()
        present = [n for n in bases if n in s.m.globals]
        def anc(n, seen):
            for b in bases.get(n, []):
                if b not in seen: seen.add(b); anc(b, seen)
            return seen
        lines = ['int vf_exc_matches(char *thrown, char *cat) {', '  if (thrown == cat) return 1;']
        for n in present:
            a = [x for x in anc(n, set()) if x in s.m.globals]
            if a: lines.append('  if (thrown == %s) return %s;' % (s.gaddr(n), ' || '.join('cat == %s' % s.gaddr(x) for x in a)))
        lines += ['  return 0;', '}']
        return '\n'.join(lines)
    def typeid(s, name):
        if name not in s.typeids: s.typeids[name] = len(s.typeids) + 1
        return s.typeids[name]

    # ---------------- functions
    def proto(s, f, name=None):
        ps = [s.ctype(p) for p in f.params]
        if f.vararg: ps.append('...')
        return '%s %s(%s)' % (s.ctype(f.ret), name or s.gname(f.name), ', '.join(ps) or 'void')

    def run(s):
        m = s.m; o = s.o
        # make sure std typeinfos used by throw helpers exist
        for fn, ti in STD_THROW.items():
            if fn in m.funcs and not m.funcs[fn].defined:
                x = ti
                while x:
                    if x not in m.globals: m.globals[x] = Global(x, PTR(I8), None, True, True, 8); s.gname(x)
                    b = STD_BASES.get(x, []); x = b[0] if b else None
        gdecl = []; gdef = []
        for gn, g in m.globals.items():
            if gn not in m.aliases: s.emit_global(g, gdef, gdecl)
        protos = []; bodies = []
        keep = re.compile(o.keep) if o.keep else None
        for name, f in m.funcs.items():
            if name.startswith('llvm.') or name in m.aliases: continue
            if name == '__gxx_personality_v0': continue
            if f.defined and name not in RT_PROVIDED:
                protos.append(s.proto(f) + ';')
            elif name in RT_PROVIDED:
                protos.append(s.proto(f) + ';')
            else:
                protos.append(s.proto(f) + ';')
        for name in m.order:
            f = m.funcs[name]
            if name in RT_PROVIDED: continue
            if name in o.extern: continue
            try:
                bodies.append(FnEmitter(s, f).emit())
                s.report['functions'][name] = f.nlines
            except Unsupported as e:
                s.report['functions'][name] = 'UNSUPPORTED: %s' % e
                bodies.append('%s { VF_UNREACHABLE("ll2c: function not translated: %s"); }' % (s.proto(f), str(e).replace('"', "'").replace('\\', '/')))
        # externals
        stubs = []
        for name, f in m.funcs.items():
            if f.defined or name.startswith('llvm.') or name in RT_PROVIDED or name == '__gxx_personality_v0' or name in m.aliases: continue
            if name in STD_THROW:
                ti = STD_THROW[name]
                stubs.append('%s { char *e = __cxa_allocate_exception(16); __cxa_throw(e, %s, 0); %s }' % (
                    s.proto_named(f), s.gaddr(ti), '' if s.res(f.ret).k == 'void' else 'return %s;' % s.zero(f.ret)))
                s.report['externals'][name] = 'model: throws ' + ti
            elif name in o.extern:
                s.report['externals'][name] = 'harness'
                if s.res(f.ret).k in ('struct', 'array'): s.redirect_protos['__ret_' + name] = 'typedef %s vf_ret_%s;' % (s.ctype(f.ret), s.gname(name))
            elif name in LIBC_MODELLED:
                s.report['externals'][name] = 'model: tools/vf_libc.c'
            else:
                s.report['externals'][name] = 'unmodelled (reaching it fails the harness)'
                stubs.append('%s { VF_UNREACHABLE("reached unmodelled external %s"); %s }' % (
                    s.proto_named(f), name, '' if s.res(f.ret).k == 'void' else 'return %s;' % s.zero(f.ret)))
        hdr = ['/* generated by ll2c -- do not edit */', '#include "vf_rt.h"'] + s.agg_defs + gdecl + protos
        src = ['#include "%s"' % o.hname] + gdef + [s.emit_exc_matches()] + stubs + bodies
        # agg defs may have been extended while emitting bodies: rebuild header
        hdr = ['/* generated by ll2c -- do not edit */', '#ifndef LL2C_GEN_H', '#define LL2C_GEN_H', '#include "vf_rt.h"'] + s.agg_defs + gdecl + protos + sorted(s.icall_protos) + sorted(s.redirect_protos.values()) + ['#endif']
        s.report['typeids'] = s.typeids
        return '\n'.join(hdr) + '\n', '\n'.join(src) + '\n'
    def proto_named(s, f):
        ps = ['%s a%d' % (s.ctype(p), i) for i, p in enumerate(f.params)]
        if f.vararg: ps.append('...')
        return '%s %s(%s)' % (s.ctype(f.ret), s.gname(f.name), ', '.join(ps) or 'void')

class FnEmitter:
    def __init__(s, E, f):
        s.E = E; s.f = f; s.names = {}; s.usedn = set(); s.decls = []; s.body = []
        s.types = {}
        s.preds = {}
        s.tmpc = 0
        s.p2i = {}
        s.nsw = not (E.o.no_nsw and re.search(E.o.no_nsw, f.name))
        s.yield_on = bool(E.o.yield_re and re.search(E.o.yield_re, f.name))
        s.redirect = {}
        for spec in E.o.redirect:
            cre, rest = spec.split(':', 1); a, b = rest.split('=')
            if re.search(cre, f.name): s.redirect[a] = b
        # --redirect-re CALLER_RE:CALLEE_RE=NEW : every call from a matching caller to a matching callee goes to NEW (prototype emitted)
        s.redirect_re = []
        for spec in E.o.redirect_re:
            cre, rest = spec.split(':', 1); a, b = rest.rsplit('=', 1)
            if re.search(cre, f.name): s.redirect_re.append((re.compile(a), b))
    def lname(s, n):
        if n in s.names: return s.names[n]
        c = 'v' + cid(n)
        base = c; k = 0
        while c in s.usedn: k += 1; c = '%s_%d' % (base, k)
        s.usedn.add(c); s.names[n] = c; return c
    def v(s, val): return s.E.val(val, s)
    def tmp(s, ct):
        s.tmpc += 1; n = 't%d' % s.tmpc; s.decls.append('%s %s;' % (ct, n)); return n
    def w(s, line): s.body.append('  ' + line)
    def define(s, res, ty):
        n = s.lname(res); s.decls.append('%s %s;' % (s.E.ctype(ty), n)); s.types[res] = ty; return n

    # result types
    def gep_type_off(s, bt, ops):
        """returns (C offset expr, result elem type)"""
        E = s.E; terms = []; const = 0; t = bt
        for i, iv in enumerate(ops):
            if i == 0:
                sz = E.L.size(t)
            else:
                t = E.res(t)
                if t.k == 'struct':
                    if iv.k != 'int': raise Unsupported('variable struct index')
                    const += E.L.field_off(t, iv.v); t = t.fields[iv.v]; continue
                elif t.k in ('array', 'vector'):
                    sz = E.L.size(t.elem); t = t.elem
                else: raise Unsupported('gep into %r' % t)
            if iv.k == 'int':
                n = E.res(iv.ty).n; vv = iv.v & ((1 << n) - 1)
                if vv >> (n - 1): vv -= 1 << n
                const += vv * sz
            else:
                terms.append('%s * (s64)%d' % (E.sx(s.v(iv), iv.ty), sz))
        if const or not terms: terms.append('(s64)%d' % const)
        return ' + '.join(terms), t

    def load(s, t, p):
        """returns (stmts, expr) loading type t from C pointer expr p"""
        E = s.E; t = E.res(t); k = t.k
        if k == 'int':
            n = t.n
            if n == 1: return '((*(u8*)(%s)) & 1)' % p
            if n in (8, 16, 32, 64): return '(*(%s*)(%s))' % (E.ctype(t), p)
            if n == 128: return '(*(u128*)(%s))' % p
            by = (n + 7) // 8
            parts = ' | '.join('((%s)(*(u8*)(%s + %d)) << %d)' % (E.wide(t), p, i, 8 * i) for i in range(by))
            return E.norm(parts, t)
        if k in ('ptr', 'func'): return '(*(char**)(%s))' % p
        if k in ('double', 'float', 'x86_fp80'): return '(*(%s*)(%s))' % (E.ctype(t), p)
        if k == 'struct':
            tn = s.tmp(E.ctype(t)); pp = s.tmp('char*'); s.w('%s = %s;' % (pp, p))
            for i, f in enumerate(t.fields):
                s.w('%s.f%d = %s;' % (tn, i, s.load(f, '(%s + %d)' % (pp, E.L.field_off(t, i)))))
            return tn
        if k == 'array':
            tn = s.tmp(E.ctype(t)); pp = s.tmp('char*'); s.w('%s = %s;' % (pp, p)); es = E.L.size(t.elem)
            for i in range(t.n):
                s.w('%s.e[%d] = %s;' % (tn, i, s.load(t.elem, '(%s + %d)' % (pp, es * i))))
            return tn
        raise Unsupported('load of %r' % t)
    def store(s, t, p, val):
        E = s.E; t = E.res(t); k = t.k
        if k == 'int':
            n = t.n
            if n == 1: s.w('*(u8*)(%s) = (u8)(%s);' % (p, val)); return
            if n in (8, 16, 32, 64, 128): s.w('*(%s*)(%s) = %s;' % (E.ctype(t), p, val)); return
            by = (n + 7) // 8
            tv = s.tmp(E.ctype(t)); s.w('%s = %s;' % (tv, val))
            for i in range(by): s.w('*(u8*)(%s + %d) = (u8)(%s >> %d);' % (p, i, tv, 8 * i))
            return
        if k in ('ptr', 'func'): s.w('*(char**)(%s) = %s;' % (p, val)); return
        if k in ('double', 'float', 'x86_fp80'): s.w('*(%s*)(%s) = %s;' % (E.ctype(t), p, val)); return
        if k == 'struct':
            tn = s.tmp(E.ctype(t)); pp = s.tmp('char*'); s.w('%s = %s; %s = %s;' % (pp, p, tn, val))
            for i, f in enumerate(t.fields): s.store(f, '(%s + %d)' % (pp, E.L.field_off(t, i)), '%s.f%d' % (tn, i))
            return
        if k == 'array':
            tn = s.tmp(E.ctype(t)); pp = s.tmp('char*'); s.w('%s = %s; %s = %s;' % (pp, p, tn, val)); es = E.L.size(t.elem)
            for i in range(t.n): s.store(t.elem, '(%s + %d)' % (pp, es * i), '%s.e[%d]' % (tn, i))
            return
        raise Unsupported('store of %r' % t)

    def edge(s, frm, to):
        """phi copies for edge frm->to then goto"""
        blk = s.bmap[to]; copies = []
        for ins in blk.ins:
            if ins.op != 'phi': break
            for (val, lb) in ins.x['inc']:
                if lb == frm: copies.append((ins, val)); break
            else: raise Unsupported('phi without incoming for edge %s->%s' % (frm, to))
        if not copies: return 'goto L_%s;' % cid(to)
        if len(copies) == 1:
            ins, val = copies[0]
            return '{ %s = %s; goto L_%s; }' % (s.lname(ins.res), s.v(val), cid(to))
        out = '{ '
        for i, (ins, val) in enumerate(copies): out += '%s p%d = %s; ' % (s.E.ctype(ins.ty), i, s.v(val))
        for i, (ins, val) in enumerate(copies): out += '%s = p%d; ' % (s.lname(ins.res), i)
        return out + 'goto L_%s; }' % cid(to)

    def retdummy(s):
        if s.E.res(s.f.ret).k == 'void': return 'return;'
        return 'return %s;' % s.E.zero(s.f.ret)

    def emit(s):
        E = s.E; f = s.f
        s.bmap = {b.name: b for b in f.blocks}
        params = []
        for i, (pt, pn) in enumerate(zip(f.params, f.pnames)):
            n = s.lname(pn); params.append('%s %s' % (E.ctype(pt), n)); s.types[pn] = pt
        if f.vararg: raise Unsupported('vararg definition')
        # byval params: callee owns a copy
        for i, a in enumerate(f.pattrs):
            if 'byval' in a and a['byval'] is not True:
                sz = E.L.size(a['byval']); n = s.lname(f.pnames[i])
                s.decls.append('char bv%d[%d] __attribute__((aligned(16)));' % (i, max(sz, 1)))
                s.w('memcpy(bv%d, %s, %d); %s = bv%d;' % (i, n, sz, n, i))
        # pre-declare all results
        for b in f.blocks:
            for ins in b.ins:
                if ins.res is None: continue
                ty = s.result_type(ins)
                if E.res(ty).k != 'void': s.define(ins.res, ty)
        for bi, b in enumerate(s.layout(f.blocks)):
            s.w('L_%s: ;' % cid(b.name))
            for ins in b.ins:
                try:
                    s.instr(ins, b)
                except Unsupported as e:
                    raise Unsupported('%s   [in: %s]' % (e, ins.line))
        hdr = '%s %s(%s) {' % (E.ctype(f.ret), E.gname(f.name), ', '.join(params) or 'void')
        return '\n'.join([hdr] + ['  ' + d for d in s.decls] + s.body + ['}'])

    def layout(s, blocks):
        """Order of the basic blocks in the generated C.  CBMC identifies loops with backward gotos, so a block that is textually before a jump
        to it looks like a loop head even if it is a loop EXIT; unwinding counters of such fake loops interact and produce spurious unwinding-
        assertion failures.  Blocks are therefore laid out loop by loop: strongly connected components in topological order, each loop
        contiguous with its header first and its exits after it (recursively for inner loops); ties keep the LLVM order."""
        idx = {b.name: i for i, b in enumerate(blocks)}
        succ = {}
        for b in blocks:
            t = b.ins[-1] if b.ins else None; out = []
            if t is not None:
                if t.op == 'br': out = [t.x['dest']]
                elif t.op == 'condbr': out = [t.x['t'], t.x['f']]
                elif t.op == 'switch': out = [t.x['default']] + [lb for _, lb in t.x['cases']]
                elif t.op == 'invoke': out = [t.x['normal'], t.x['unwind']]
            succ[b.name] = [x for x in dict.fromkeys(out) if x in idx]
        def sccs(nodes, edges):
            index = {}; low = {}; st = []; on = set(); res = []; cnt = [0]
            for root in sorted(nodes, key=lambda n: idx[n]):
                if root in index: continue
                work = [(root, iter(edges(root)))]; index[root] = low[root] = cnt[0]; cnt[0] += 1; st.append(root); on.add(root)
                while work:
                    v, it = work[-1]; adv = False
                    for w in it:
                        if w not in nodes: continue
                        if w not in index:
                            index[w] = low[w] = cnt[0]; cnt[0] += 1; st.append(w); on.add(w); work.append((w, iter(edges(w)))); adv = True; break
                        elif w in on: low[v] = min(low[v], index[w])
                    if adv: continue
                    work.pop()
                    if work: low[work[-1][0]] = min(low[work[-1][0]], low[v])
                    if low[v] == index[v]:
                        comp = []
                        while True:
                            w = st.pop(); on.discard(w); comp.append(w)
                            if w == v: break
                        res.append(comp)
            return res
        def order(nodes, edges, entry):
            comps = sccs(nodes, edges); cid_ = {}
            for i, c in enumerate(comps):
                for n in c: cid_[n] = i
            indeg = [0] * len(comps); out = [set() for _ in comps]
            for n in nodes:
                for w in edges(n):
                    if w in nodes and cid_[w] != cid_[n] and cid_[w] not in out[cid_[n]]: out[cid_[n]].add(cid_[w]); indeg[cid_[w]] += 1
            key = lambda i: (0 if entry in comps[i] else 1, min(idx[n] for n in comps[i]))
            ready = sorted([i for i in range(len(comps)) if indeg[i] == 0], key=key); res = []
            while ready:
                i = ready.pop(0); c = comps[i]
                if len(c) == 1 and c[0] not in [w for w in edges(c[0])]: res.append(c[0])
                else:
                    cs = set(c)
                    heads = [n for n in c if n == entry or any(n in edges(p) for p in nodes if p not in cs)]
                    h = min(heads or c, key=lambda n: idx[n])
                    inner = lambda n, h=h, cs=cs: [w for w in edges(n) if w != h and w in cs]
                    res += order(cs, inner, h)
                for k in out[i]:
                    indeg[k] -= 1
                    if indeg[k] == 0: ready.append(k)
                ready.sort(key=key)
            return res
        try:
            names = order(set(idx), lambda n: succ[n], blocks[0].name)
            if len(names) != len(blocks) or names[0] != blocks[0].name: return blocks
            return [s.bmap[n] for n in names]
        except RecursionError:
            return blocks

    def result_type(s, ins):
        E = s.E; op = ins.op
        if op == 'gep': return PTR(I8)
        if op == 'extractvalue':
            t = s.optype(ins.ops[0])
            for i in ins.x['idx']:
                t = E.res(t); t = t.fields[i] if t.k == 'struct' else t.elem
            return t
        if op == 'insertvalue': return s.optype(ins.ops[0])
        if op == 'alloca': return PTR(I8)
        return ins.ty
    def optype(s, v): return v.ty

    def chk(s, cond, msg):
        s.w('VF_CHK(%s, "%s");' % (cond, msg.replace('"', "'").replace('\\', '/')))

    def instr(s, ins, blk):
        E = s.E; op = ins.op; v = s.v
        R = s.lname(ins.res) if ins.res is not None else None
        loc = '%s:%s' % (s.f.name[:60], ins.res or op)
        if op == 'phi': return
        if op == 'sub' and all(o.k == 'local' and o.v in s.p2i for o in ins.ops) and E.res(ins.ty).n == 64:
            # (ptrtoint p) - (ptrtoint q): emit as a pointer difference so that CBMC can fold it within one object
            pa, pb = s.v(s.p2i[ins.ops[0].v]), s.v(s.p2i[ins.ops[1].v])
            s.w('%s = VF_PTRDIFF(%s, %s);' % (R, pa, pb)); return
        if op in ('add', 'sub', 'mul'):
            a, b = v(ins.ops[0]), v(ins.ops[1]); t = ins.ty; n = E.res(t).n; W = E.wide(t); c = {'add': '+', 'sub': '-', 'mul': '*'}[op]
            fl = ins.x['flags']
            if s.nsw and 'nsw' in fl:
                if n <= 32: s.chk('vf_fits_s(%s %s %s, %d)' % (E.sx(a, t), c, E.sx(b, t), n), 'UB signed overflow %s nsw i%d in %s' % (op, n, loc))
                elif n == 64: s.chk('!__builtin_%s_overflow((s64)%s, (s64)%s, &vf_ovf_dummy)' % (op, a, b), 'UB signed overflow %s nsw i64 in %s' % (op, loc))
            if s.nsw and 'nuw' in fl and n <= 64:
                if n < 64: s.chk('vf_fits_u((u64)%s %s (u64)%s, %d)' % (a, c, b, n), 'UB unsigned wrap %s nuw i%d in %s' % (op, n, loc))
                else: s.chk('!__builtin_%s_overflow((u64)%s, (u64)%s, &vf_ovfu_dummy)' % (op, a, b), 'UB unsigned wrap %s nuw i64 in %s' % (op, loc))
            s.w('%s = %s;' % (R, E.norm('(%s)%s %s (%s)%s' % (W, a, c, W, b), t))); return
        if op in ('and', 'or', 'xor'):
            c = {'and': '&', 'or': '|', 'xor': '^'}[op]
            s.w('%s = %s;' % (R, E.norm('%s %s %s' % (v(ins.ops[0]), c, v(ins.ops[1])), ins.ty))); return
        if op in ('udiv', 'urem'):
            a, b = v(ins.ops[0]), v(ins.ops[1]); c = '/' if op == 'udiv' else '%'
            s.chk('%s != 0' % b, 'UB division by zero in %s' % loc)
            s.w('%s = %s;' % (R, E.norm('(%s != 0 ? %s %s %s : 0)' % (b, a, c, b), ins.ty))); return
        if op in ('sdiv', 'srem'):
            a, b = v(ins.ops[0]), v(ins.ops[1]); c = '/' if op == 'sdiv' else '%'; t = ins.ty; n = E.res(t).n
            sa, sb = E.sx(a, t), E.sx(b, t)
            s.chk('%s != 0' % b, 'UB division by zero in %s' % loc)
            minv = '(-(%s)1 << %d)' % (E.swide(t), n - 1) if n < 64 else 'INT64_MIN'
            if n <= 64: s.chk('!(%s == -1 && %s == %s)' % (sb, sa, '(-((s64)1 << %d))' % (n - 1) if n < 64 else 'INT64_MIN'), 'UB signed division overflow in %s' % loc)
            if n <= 64:
                s.w('%s = %s;' % (R, E.norm('((%s == 0 || (%s == -1 && %s == %s)) ? 0 : (u64)(%s %s %s))' % (b, sb, sa, '(-((s64)1 << %d))' % (n - 1) if n < 64 else 'INT64_MIN', sa, c, sb), t)))
            else:
                s.w('%s = %s;' % (R, E.norm('(%s == 0 ? 0 : (u128)(%s %s %s))' % (b, sa, c, sb), t)))
            return
        if op in ('shl', 'lshr', 'ashr'):
            a, b = v(ins.ops[0]), v(ins.ops[1]); t = ins.ty; n = E.res(t).n; W = E.wide(t)
            if op == 'shl': e = '((%s)%s << (%s))' % (W, a, b)
            elif op == 'lshr': e = '((%s)%s >> (%s))' % (W, a, b)
            else: e = '(%s)(%s >> (%s))' % (W, E.sx(a, t) if n != 128 else '(s128)' + a, b)
            s.w('%s = (%s < %d) ? %s : %s;' % (R, b, n, E.norm(e, t), E.zero(t))); return
        if op in ('fadd', 'fsub', 'fmul', 'fdiv', 'frem'):
            fk = E.fkind(ins.ty)
            s.w('%s = VF_%s(%s, %s, %s);' % (R, op.upper(), fk, v(ins.ops[0]), v(ins.ops[1]))); return
        if op == 'fneg':
            s.w('%s = VF_FNEG(%s, %s);' % (R, E.fkind(ins.ty), v(ins.ops[0]))); return
        if op == 'icmp':
            a, b = v(ins.ops[0]), v(ins.ops[1]); t = ins.ops[0].ty; p = ins.x['pred']
            isptr = E.res(t).k in ('ptr', 'func')
            if p in ('eq', 'ne'): e = '%s %s %s' % (a, '==' if p == 'eq' else '!=', b)
            elif p[0] == 'u':
                c = {'ugt': '>', 'uge': '>=', 'ult': '<', 'ule': '<='}[p]
                e = ('(u64)%s %s (u64)%s' if isptr else '%s %s %s') % (a, c, b)
            else:
                c = {'sgt': '>', 'sge': '>=', 'slt': '<', 'sle': '<='}[p]
                e = ('(s64)(u64)%s %s (s64)(u64)%s' % (a, c, b)) if isptr else '%s %s %s' % (E.sx(a, t), c, E.sx(b, t))
            s.w('%s = (u8)(%s);' % (R, e)); return
        if op == 'fcmp':
            fk = E.fkind(ins.ops[0].ty)
            s.w('%s = (u8)VF_FCMP_%s(%s, %s, %s);' % (R, ins.x['pred'], fk, v(ins.ops[0]), v(ins.ops[1]))); return
        if op == 'select':
            s.w('%s = %s ? %s : %s;' % (R, v(ins.ops[0]), v(ins.ops[1]), v(ins.ops[2]))); return
        if op in ('trunc', 'zext'):
            s.w('%s = %s;' % (R, E.norm(v(ins.ops[0]), ins.ty))); return
        if op == 'sext':
            s.w('%s = %s;' % (R, E.norm(E.sx(v(ins.ops[0]), ins.ops[0].ty), ins.ty))); return
        if op in ('bitcast', 'addrspacecast'):
            a = ins.ops[0]; fk, tk = E.res(a.ty).k, E.res(ins.ty).k
            if fk in ('ptr', 'func') and tk in ('ptr', 'func'): s.w('%s = %s;' % (R, v(a))); return
            if fk == 'double' and tk == 'int': s.w('%s = VF_F2BITS64(%s);' % (R, v(a))); return
            if fk == 'int' and tk == 'double': s.w('%s = VF_BITS2F64(%s);' % (R, v(a))); return
            if fk == 'float' and tk == 'int': s.w('%s = VF_F2BITS32(%s);' % (R, v(a))); return
            if fk == 'int' and tk == 'float': s.w('%s = VF_BITS2F32(%s);' % (R, v(a))); return
            raise Unsupported('bitcast %r -> %r' % (a.ty, ins.ty))
        if op == 'ptrtoint':
            s.p2i[ins.res] = ins.ops[0]
            s.w('%s = %s;' % (R, E.norm('(u64)%s' % v(ins.ops[0]), ins.ty))); return
        if op == 'inttoptr': s.w('%s = (char*)(u64)%s;' % (R, v(ins.ops[0]))); return
        if op in ('fpext', 'fptrunc'):
            s.w('%s = VF_FPCAST(%s, %s, %s);' % (R, E.fkind(ins.ty), E.fkind(ins.ops[0].ty), v(ins.ops[0]))); return
        if op in ('sitofp', 'uitofp'):
            a = ins.ops[0]
            e = E.sx(v(a), a.ty) if op == 'sitofp' else '(%s)%s' % (E.wide(a.ty), v(a))
            s.w('%s = VF_%s(%s, %s);' % (R, op.upper(), E.fkind(ins.ty), e)); return
        if op in ('fptosi', 'fptoui'):
            a = ins.ops[0]; n = E.res(ins.ty).n; fk = E.fkind(a.ty)
            if n > 64: raise Unsupported('fptoi i%d' % n)
            if op == 'fptosi':
                lo, hi = '-%s' % repr(float(2 ** (n - 1))), repr(float(2 ** (n - 1)))
                s.w('VF_CHK_FPTOI(VF_FCMP_oge(%s, %s, (vf_%s)VF_F64_C(UINT64_C(%d))) && VF_FCMP_olt(%s, %s, (vf_%s)VF_F64_C(UINT64_C(%d))), "UB fptosi out of range i%d in %s");' % (
                    fk, v(a), fk, struct.unpack('<Q', struct.pack('<d', -float(2 ** (n - 1))))[0], fk, v(a), fk, struct.unpack('<Q', struct.pack('<d', float(2 ** (n - 1))))[0], n, loc))
                s.w('%s = %s;' % (R, E.norm('(u64)VF_FPTOSI(%s, s64, %s)' % (fk, v(a)), ins.ty)))
            else:
                s.w('VF_CHK_FPTOI(VF_FCMP_ogt(%s, %s, (vf_%s)VF_F64_C(UINT64_C(%d))) && VF_FCMP_olt(%s, %s, (vf_%s)VF_F64_C(UINT64_C(%d))), "UB fptoui out of range i%d in %s");' % (
                    fk, v(a), fk, struct.unpack('<Q', struct.pack('<d', -1.0))[0], fk, v(a), fk, struct.unpack('<Q', struct.pack('<d', float(2 ** n)))[0], n, loc))
                s.w('%s = %s;' % (R, E.norm('VF_FPTOUI(%s, u64, %s)' % (fk, v(a)), ins.ty)))
            return
        if op == 'freeze': s.w('%s = %s;' % (R, v(ins.ops[0]))); return
        if op == 'alloca':
            t = ins.x['aty']; sz = E.L.size(t); al = ins.x['align'] or E.L.sa(t)[1]
            if ins.ops:
                n = ins.ops[0]
                if n.k != 'int': raise Unsupported('dynamic alloca')
                sz *= n.v
            an = 'a_' + R
            try:
                if ins.ops: raise Unsupported('array alloca')
                mp_, ms_ = E.memtype(t)
                s.decls.append('%s %s%s __attribute__((aligned(%d)));' % (mp_, an, ms_, al))
                s.w('%s = (char*)&%s;' % (R, an)); return
            except Unsupported: pass
            s.decls.append('char %s[%d] __attribute__((aligned(%d)));' % (an, max(sz, 1), al))
            s.w('%s = %s;' % (R, an)); return
        if op == 'gep':
            off, _ = s.gep_type_off(ins.x['bt'], ins.ops[1:])
            s.w('%s = %s + (%s);' % (R, v(ins.ops[0]), off)); return
        if op == 'load':
            s.maybe_yield(ins.ops[0], 'load', ins)
            e = s.load(ins.ty, v(ins.ops[0])); s.w('%s = %s;' % (R, e)); return
        if op == 'store':
            s.maybe_yield(ins.ops[1], 'store', ins)
            s.store(ins.ops[0].ty, v(ins.ops[1]), v(ins.ops[0])); return
        if op == 'atomicrmw':
            s.maybe_yield(ins.ops[0], 'atomicrmw', ins)
            p = v(ins.ops[0]); t = ins.ty; old = s.load(t, p); s.w('%s = %s;' % (R, old))
            b = ins.x['bop']; x = v(ins.ops[1]); W = E.wide(t)
            if b == 'xchg': nv = x
            elif b in ('add', 'sub', 'and', 'or', 'xor'):
                c = {'add': '+', 'sub': '-', 'and': '&', 'or': '|', 'xor': '^'}[b]; nv = E.norm('(%s)%s %s (%s)%s' % (W, R, c, W, x), t)
            else: raise Unsupported('atomicrmw ' + b)
            s.store(t, p, nv); return
        if op == 'cmpxchg':
            p = v(ins.ops[0]); t = ins.ops[1].ty
            s.w('%s.f0 = %s;' % (R, s.load(t, p))); s.w('%s.f1 = (u8)(%s.f0 == %s);' % (R, R, v(ins.ops[1])))
            s.w('if (%s.f1) {' % R); s.store(t, p, v(ins.ops[2])); s.w('}'); return
        if op == 'fence': return
        if op == 'extractvalue':
            e = v(ins.ops[0]); t = ins.ops[0].ty
            for i in ins.x['idx']:
                t = E.res(t)
                if t.k == 'struct': e += '.f%d' % i; t = t.fields[i]
                else: e += '.e[%d]' % i; t = t.elem
            s.w('%s = %s;' % (R, e)); return
        if op == 'insertvalue':
            s.w('%s = %s;' % (R, v(ins.ops[0]))); e = R; t = ins.ops[0].ty
            for i in ins.x['idx']:
                t = E.res(t)
                if t.k == 'struct': e += '.f%d' % i; t = t.fields[i]
                else: e += '.e[%d]' % i; t = t.elem
            s.w('%s = %s;' % (e, v(ins.ops[1]))); return
        if op == 'br': s.w(s.edge(blk.name, ins.x['dest'])); return
        if op == 'condbr':
            s.w('if (%s) %s else %s' % (v(ins.ops[0]), s.edge(blk.name, ins.x['t']), s.edge(blk.name, ins.x['f']))); return
        if op == 'switch':
            c = ins.ops[0]
            s.w('switch (%s) {' % v(c))
            for cv, lb in ins.x['cases']: s.w('  case %s: %s' % (v(cv), s.edge(blk.name, lb)))
            s.w('  default: %s' % s.edge(blk.name, ins.x['default'])); s.w('}'); return
        if op == 'ret':
            if ins.ops: s.w('return %s;' % v(ins.ops[0]))
            else: s.w('return;')
            return
        if op == 'unreachable': s.w('VF_UNREACHABLE("UB unreachable executed in %s");' % s.f.name[:80]); s.w(s.retdummy()); return
        if op == 'resume':
            a = v(ins.ops[0])
            s.w('vf_exc_obj = %s.f0; vf_exc_type = VF_EXC_TYPE_OF(vf_exc_obj); %s' % (a, s.retdummy())); return
        if op == 'landingpad':
            s.w('{ char *ty_ = vf_exc_type; vf_exc_type = 0; %s.f0 = vf_exc_obj; %s.f1 = 0;' % (R, R))
            first = True
            for kind, cv in ins.x['clauses']:
                kw = 'if' if first else 'else if'; first = False
                if kind == 'catch':
                    x = cv
                    while x.k == 'cexpr': x = x.ops[0]
                    if x.k == 'null': s.w('  %s (1) %s.f1 = 0x7ffffff0u;' % (kw, R))
                    elif x.k == 'global': s.w('  %s (vf_exc_matches(ty_, %s)) %s.f1 = %du;' % (kw, E.gaddr(x.v), R, E.typeid(x.v)))
                    else: raise Unsupported('catch clause')
                else:
                    if cv.k in ('zero', 'undef') or (cv.k == 'array' and not cv.ops): s.w('  %s (1) %s.f1 = 0xffffffffu;' % (kw, R))
                    else: raise Unsupported('non-empty filter clause')
            s.w('}'); return
        if op in ('call', 'invoke'): return s.call(ins, blk, R, loc)
        raise Unsupported('instruction ' + op)

    def maybe_yield(s, ptr, what, ins):
        if not s.yield_on: return
        x = ptr
        while x.k == 'cexpr': x = x.ops[0]
        if x.k != 'global': return
        sid = len(s.E.sites); s.E.sites.append({'id': sid, 'function': s.f.name, 'access': what, 'global': x.v, 'ir': ins.line})
        s.w('vf_yield(%d);' % sid)

    def call(s, ins, blk, R, loc):
        E = s.E; v = s.v; callee = ins.x['callee']; args = ins.ops
        x = callee
        while x.k == 'cexpr' and x.op == 'bitcast': x = x.ops[0]
        name = x.v if x.k == 'global' else None
        def after(nounwind=False):
            if ins.op == 'invoke':
                if nounwind: s.w(s.edge(blk.name, ins.x['normal']))
                else: s.w('if (vf_exc_type) %s else { VF_NOEXC(); %s }' % (s.edge(blk.name, ins.x['unwind']), s.edge(blk.name, ins.x['normal'])))
            elif not nounwind:
                s.w('if (vf_exc_type) %s' % s.retdummy()); s.w('VF_NOEXC();')
        if name and name.startswith('llvm.'):
            s.intrinsic(name, ins, R, loc); after(True); return
        if name == '__cxa_throw' or (name in STD_THROW):
            pass
        fty = ins.x['fty']
        if name:
            tgt = s.redirect.get(name, None)
            if tgt is None:
                for cre_, new_ in s.redirect_re:
                    if cre_.search(name) and name in E.m.funcs:
                        tgt = new_
                        pr = E.proto(E.m.funcs[name], new_) + ';'
                        old = E.redirect_protos.get(new_)
                        if old and old != pr: raise Unsupported('redirect target %s used with two signatures' % new_)
                        E.redirect_protos[new_] = pr; E.report.setdefault('redirected', {}).setdefault(new_, [])
                        if name not in E.report['redirected'][new_]: E.report['redirected'][new_].append(name)
                        break
            fn = tgt if tgt else E.gname(name)
            f = E.m.funcs.get(name)
            direct = f is not None and x is callee
            if f is not None and not direct:
                # call through bitcast of a function: cast to the call-site type
                direct = False
        else:
            direct = False
        argv = [v(a) for a in args]
        # byval handled in callee; sret is ordinary pointer
        if name and (callee.k == 'global'):
            f = E.m.funcs[name]
            if len(f.params) != len(args) and not f.vararg: raise Unsupported('arg count mismatch calling ' + name)
            e = '%s(%s)' % (fn, ', '.join(argv))
        else:
            # indirect or casted: build function pointer type from call-site
            rt = E.ctype(ins.ty)
            if fty.k == 'func': pts = [E.ctype(p) for p in fty.params] + (['...'] if fty.vararg else [])
            else: pts = [E.ctype(a.ty) for a in args]
            cexp = v(callee) if not name else '((char*)&%s)' % fn
            if not name and E.o.icall_hook and re.search(E.o.icall_hook, s.f.name):
                # harness-supplied dispatcher (restricts/observes the targets of this indirect call)
                hn = 'vf_icall_' + '_'.join(cid(x.replace('*', 'p').replace(' ', '')) for x in [rt] + pts)
                E.icall_protos.add('%s %s(%s);' % (rt, hn, ', '.join(['char*'] + pts)))
                e = '%s(%s)' % (hn, ', '.join([cexp] + argv))
            else:
                e = '((%s(*)(%s))(%s))(%s)' % (rt, ', '.join(pts) or 'void', cexp, ', '.join(argv))
        if R is not None and E.res(ins.ty).k != 'void': s.w('%s = %s;' % (R, e))
        else: s.w('%s;' % e)
        nounwind = False
        if name and name in E.m.funcs and ('nounwind' in E.m.funcs[name].attrs) and name not in E.o.extern: nounwind = True
        if name in ('__cxa_begin_catch', '__cxa_end_catch', '__cxa_allocate_exception', '_ZdlPv', '_ZdaPv', '_ZdlPvm'): nounwind = True
        after(nounwind)

    def intrinsic(s, name, ins, R, loc):
        E = s.E; v = s.v; a = ins.ops
        base = name.split('.')[1]
        if base in ('lifetime', 'dbg', 'experimental', 'assume', 'invariant', 'donothing', 'prefetch', 'stackrestore', 'var', 'annotation') :
            return
        if base == 'stacksave': s.w('%s = (char*)0;' % R); return
        if base in ('memcpy', 'memmove', 'memset') and E.o.inline_mem and getattr(a[2], 'k', None) == 'int' and 0 <= a[2].v <= int(E.o.inline_mem) \
                and (base != 'memset' or getattr(a[1], 'k', None) == 'int'):
            # --inline-mem N: constant-size block operations as word moves.  CBMC's library models of memcpy/memset go through array_replace on the
            # whole destination object, which makes the propositional encoding of struct-heavy code explode.  8-byte words move as pointer-typed
            # values so that pointers keep their object identity (integers/doubles survive the reinterpretation bit for bit).
            n = a[2].v; d = s.tmp('char*'); s.w('%s = %s;' % (d, v(a[0])))
            chunks = []; off = 0
            while n - off >= 8: chunks.append((off, 8)); off += 8
            for sz in (4, 2, 1):
                while n - off >= sz: chunks.append((off, sz)); off += sz
            CT = {8: 'char*', 4: 'u32', 2: 'u16', 1: 'u8'}
            if base == 'memset':
                b = a[1].v & 255
                for (o_, sz) in chunks:
                    val = int.from_bytes(bytes([b]) * sz, 'little')
                    s.w('*(%s*)(%s + %d) = (%s)UINT64_C(%d);' % (CT[sz], d, o_, CT[sz], val))
                return
            src = s.tmp('char*'); s.w('%s = %s;' % (src, v(a[1])))
            if base == 'memmove':      # overlap-safe: all loads first
                ts = []
                for (o_, sz) in chunks:
                    t_ = s.tmp(CT[sz]); ts.append(t_); s.w('%s = *(%s*)(%s + %d);' % (t_, CT[sz], src, o_))
                for t_, (o_, sz) in zip(ts, chunks): s.w('*(%s*)(%s + %d) = %s;' % (CT[sz], d, o_, t_))
            else:
                for (o_, sz) in chunks: s.w('*(%s*)(%s + %d) = *(%s*)(%s + %d);' % (CT[sz], d, o_, CT[sz], src, o_))
            return
        if base in ('memcpy', 'memmove'):
            s.w('%s(%s, %s, (size_t)%s);' % (base, v(a[0]), v(a[1]), v(a[2]))); return
        if base == 'memset':
            s.w('memset(%s, (int)%s, (size_t)%s);' % (v(a[0]), v(a[1]), v(a[2]))); return
        if base == 'eh':
            if 'typeid' in name:
                x = a[0]
                while x.k == 'cexpr': x = x.ops[0]
                s.w('%s = %du;' % (R, E.typeid(x.v))); return
            raise Unsupported(name)
        if base == 'expect': s.w('%s = %s;' % (R, v(a[0]))); return
        if base == 'abs':
            t = ins.ty; x = v(a[0]); sxx = E.sx(x, t)
            s.w('%s = %s;' % (R, E.norm('(%s < 0 ? (%s)0 - (%s)%s : (%s)%s)' % (sxx, E.wide(t), E.wide(t), x, E.wide(t), x), t))); return
        if base in ('smax', 'smin', 'umax', 'umin'):
            t = ins.ty; x, y = v(a[0]), v(a[1])
            c = '>' if base[1:] == 'max' else '<'
            if base[0] == 's': s.w('%s = (%s %s %s) ? %s : %s;' % (R, E.sx(x, t), c, E.sx(y, t), x, y))
            else: s.w('%s = (%s %s %s) ? %s : %s;' % (R, x, c, y, x, y))
            return
        if base in ('sadd', 'ssub', 'smul', 'uadd', 'usub', 'umul'):
            t = a[0].ty; n = E.res(t).n; x, y = v(a[0]), v(a[1]); c = {'add': '+', 'sub': '-', 'mul': '*'}[base[1:]]
            if n > 64: raise Unsupported(name)
            if base[0] == 's':
                if n <= 32:
                    s.w('{ s64 r_ = %s %s %s; %s.f0 = %s; %s.f1 = (u8)!vf_fits_s(r_, %d); }' % (E.sx(x, t), c, E.sx(y, t), R, E.norm('(u64)r_', t), R, n))
                else:
                    s.w('{ s64 r_; %s.f1 = (u8)__builtin_%s_overflow((s64)%s, (s64)%s, &r_); %s.f0 = (u64)r_; }' % (R, base[1:], x, y, R))
            else:
                if n <= 32:
                    s.w('{ u64 r_ = (u64)%s %s (u64)%s; %s.f0 = %s; %s.f1 = (u8)!vf_fits_u(r_, %d); }' % (x, c, y, R, E.norm('r_', t), R, n))
                else:
                    s.w('{ u64 r_; %s.f1 = (u8)__builtin_%s_overflow((u64)%s, (u64)%s, &r_); %s.f0 = r_; }' % (R, base[1:], x, y, R))
            return
        if base in ('fabs', 'floor', 'ceil', 'trunc', 'round', 'rint', 'nearbyint', 'sqrt'):
            m = {'nearbyint': 'RINT'}.get(base, base.upper())
            s.w('%s = VF_%s(%s, %s);' % (R, m, E.fkind(ins.ty), v(a[0]))); return
        if base in ('copysign', 'minnum', 'maxnum'):
            m = {'copysign': 'COPYSIGN', 'minnum': 'FMIN', 'maxnum': 'FMAX'}[base]
            s.w('%s = VF_%s(%s, %s, %s);' % (R, m, E.fkind(ins.ty), v(a[0]), v(a[1]))); return
        if base == 'fmuladd' or base == 'fma':
            fk = E.fkind(ins.ty)
            s.w('%s = VF_FADD(%s, VF_FMUL(%s, %s, %s), %s);' % (R, fk, fk, v(a[0]), v(a[1]), v(a[2]))); return
        if base in ('ctlz', 'cttz'):
            n = E.res(ins.ty).n
            s.w('%s = (%s)vf_%s((u64)%s, %d);' % (R, E.ctype(ins.ty), base, v(a[0]), n)); return
        if base == 'ctpop': s.w('%s = (%s)vf_ctpop64((u64)%s);' % (R, E.ctype(ins.ty), v(a[0]))); return
        if base == 'bswap': s.w('%s = (%s)vf_bswap((u64)%s, %d);' % (R, E.ctype(ins.ty), v(a[0]), E.res(ins.ty).n)); return
        if base == 'trap' or base == 'debugtrap': s.w('VF_UNREACHABLE("llvm.trap in %s");' % loc); return
        if base == 'objectsize': s.w('%s = %s;' % (R, E.intlit(-1, ins.ty))); return
        if base == 'is': s.w('%s = 0;' % R); return
        if base in ('fshl', 'fshr'):
            t = ins.ty; n = E.res(t).n; x, y, z = v(a[0]), v(a[1]), v(a[2])
            if n > 64: raise Unsupported(name)
            sh = '((u64)%s %% %d)' % (z, n)
            if base == 'fshl': e = '(%s == 0 ? (u64)%s : (((u64)%s << %s) | ((u64)%s >> (%d - %s))))' % (sh, x, x, sh, y, n, sh)
            else: e = '(%s == 0 ? (u64)%s : (((u64)%s << (%d - %s)) | ((u64)%s >> %s)))' % (sh, y, x, n, sh, y, sh)
            s.w('%s = %s;' % (R, E.norm(e, t))); return
        if base in ('pow', 'exp', 'log', 'log10', 'log2', 'exp2', 'sin', 'cos', 'powi'):
            # libm through intrinsic form: route to the libm symbol (harness/rt decides)
            fk = E.fkind(ins.ty)
            s.w('%s = vf_libm_%s_%s(%s);' % (R, base, fk, ', '.join(v(x) for x in a))); return
        raise Unsupported('intrinsic ' + name)

PRELUDE_EXTRA = '''
static s64 vf_ovf_dummy; static u64 vf_ovfu_dummy;
static inline int vf_fits_s(s64 r, int n) { return r >= -((s64)1 << (n - 1)) && r <= ((s64)1 << (n - 1)) - 1; }
static inline int vf_fits_u(u64 r, int n) { return (r >> n) == 0; }
'''

def main():
    ap = argparse.ArgumentParser()
    ap.add_argument('input'); ap.add_argument('-o', dest='out', required=True); ap.add_argument('-H', dest='hdr')
    ap.add_argument('--report'); ap.add_argument('--extern', action='append', default=[])
    ap.add_argument('--keep'); ap.add_argument('--yield', dest='yield_re'); ap.add_argument('--redirect', action='append', default=[])
    ap.add_argument('--redirect-re', dest='redirect_re', action='append', default=[]); ap.add_argument('--inline-mem', dest='inline_mem', default=None); ap.add_argument('--no-nsw', dest='no_nsw'); ap.add_argument('--icall-hook', dest='icall_hook')
    o = ap.parse_args()
    o.extern = set(x for e in o.extern for x in e.split(',') if x)
    o.hname = (o.hdr or re.sub(r'\.c$', '.h', o.out)).split('/')[-1]
    mod = parse_module(open(o.input).read())
    E = Emitter(mod, o)
    h, c = E.run()
    h = h.replace('#include "vf_rt.h"', '#include "vf_rt.h"' + PRELUDE_EXTRA, 1)
    open(o.hdr or re.sub(r'\.c$', '.h', o.out), 'w').write(h)
    open(o.out, 'w').write(c)
    if o.report: json.dump(E.report, open(o.report, 'w'), indent=1)
    bad = {k: v for k, v in E.report['functions'].items() if isinstance(v, str)}
    for k, v in bad.items(): sys.stderr.write('ll2c: %s: %s\n' % (k, v))

if __name__ == '__main__':
    main()
