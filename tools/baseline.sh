#!/bin/sh
# builds /repo with the verification guard OFF (default build) and runs the pinned suite
set -e
cmake -S /repo -B /repo/_build -G Ninja >/dev/null
cmake --build /repo/_build -j16 >/dev/null
ctest --test-dir /repo/_build -j8 --timeout 900 || true
