/* Harness-side helpers.  A harness is `void h_xxx(void)`; all of its inputs come from vf_nd*()
 * so that (a) CBMC treats them as free variables, (b) a CBMC counterexample can be replayed
 * natively (the logged values are fed back in call order) against the REAL g++ build of the
 * wrappers, and (c) the same harness run natively on gen.c and on the real build validates the
 * translator. */
#ifndef VF_HARNESS_H
#define VF_HARNESS_H
#include "gen.h"
#define VF_LOGN 512
extern u64 vf_log[VF_LOGN]; extern int vf_nlog;
#ifdef __CPROVER__
#define VF_ASSERT(c, msg) VF_CHK(c, msg)
#define VF_REQUIRE(c) __CPROVER_assume(c)
#define VF_OBS(x) ((void)0)
#ifdef WITNESS
#define VF_WITNESS() __CPROVER_assert(0, "WITNESS harness end reachable")
#else
#define VF_WITNESS() ((void)0)
#endif
/* every input goes through vf_nd64.  In the trace-extraction run (-DVF_TRACE) a rotating checksum of all
 * inputs is made part of every assertion's cone of influence, so --slice-formula keeps the
 * `vf_ndv = nondet` steps and the trace lists the inputs in call order. */
static inline u64 vf_nd64(void) {
  u64 vf_ndv = nondet_u64();
#ifdef VF_TRACE
  vf_sum = ((vf_sum << 7) | (vf_sum >> 57)) ^ vf_ndv;
#endif
  return vf_ndv;
}
#else
#include <setjmp.h>
extern jmp_buf vf_jb; extern int vf_assert_failed;
u64 vf_nd64(void);
void vf_obs(u64 x);
void vf_assert_fail(const char *msg);
#define VF_ASSERT(c, msg) do { if (!(c)) vf_assert_fail(msg); } while (0)
#define VF_REQUIRE(c) do { if (!(c)) longjmp(vf_jb, 1); } while (0)
#define VF_OBS(x) vf_obs((u64)(x))
#define VF_WITNESS() ((void)0)
#endif
static inline u32 vf_nd32(void) { return (u32)vf_nd64(); }
static inline u16 vf_nd16(void) { return (u16)vf_nd64(); }
static inline u8 vf_nd8(void) { return (u8)vf_nd64(); }
static inline int vf_ndbool(void) { return (int)(vf_nd64() & 1); }
static inline u64 vf_ndrange(u64 lo, u64 hi) { u64 v = vf_nd64(); VF_REQUIRE(v >= lo && v <= hi); return v; }
#ifndef VF_SYMREAL
static inline double vf_nddouble(void) { return vf_bits2d(vf_nd64()); }
#endif
#endif
