"""Parser for LLVM-14 textual IR (typed pointers) -- the subset clang++-14 -O1 emits
for the mp harness TUs.  Produces Module/Function/Block/Instr objects used by ll2c."""
import re, sys

# ---------------------------------------------------------------- types
class Ty:
    __slots__ = ('k', 'n', 'elem', 'fields', 'packed', 'ret', 'params', 'vararg', 'name')
    def __init__(s, k, **kw):
        s.k = k; s.n = kw.get('n'); s.elem = kw.get('elem'); s.fields = kw.get('fields')
        s.packed = kw.get('packed', False); s.ret = kw.get('ret'); s.params = kw.get('params')
        s.vararg = kw.get('vararg', False); s.name = kw.get('name')
    def __repr__(s):
        if s.k == 'int': return 'i%d' % s.n
        if s.k == 'ptr': return '%r*' % (s.elem,)
        if s.k == 'array': return '[%d x %r]' % (s.n, s.elem)
        if s.k == 'struct': return ('<{%s}>' if s.packed else '{%s}') % ', '.join(map(repr, s.fields))
        if s.k == 'named': return '%' + s.name
        if s.k == 'func': return '%r (%s)' % (s.ret, ', '.join(map(repr, s.params)) + (', ...' if s.vararg else ''))
        if s.k == 'vector': return '<%d x %r>' % (s.n, s.elem)
        return s.k
    def key(s): return repr(s)

VOID = Ty('void'); LABEL = Ty('label'); METADATA = Ty('metadata')
def INT(n): return Ty('int', n=n)
I1, I8, I32, I64 = INT(1), INT(8), INT(32), INT(64)
def PTR(t): return Ty('ptr', elem=t)

# ---------------------------------------------------------------- tokens
TOK = re.compile(r'''
   (?P<ws>\s+)
 | (?P<cstr>c"(?:[^"\\]|\\[0-9A-Fa-f]{2}|\\\\)*")
 | (?P<qid>[@%!$]"(?:[^"\\]|\\.)*")
 | (?P<str>"(?:[^"\\]|\\.)*")
 | (?P<id>[@%$][-a-zA-Z$._0-9]+)
 | (?P<md>![-a-zA-Z$._0-9]*)
 | (?P<attr>\#[0-9]+)
 | (?P<hexf>0x[KLMHR]?[0-9A-Fa-f]+)
 | (?P<num>-?[0-9]+\.[0-9]*(?:[eE][-+]?[0-9]+)?)
 | (?P<int>-?[0-9]+)
 | (?P<dots>\.\.\.)
 | (?P<word>[a-zA-Z_][a-zA-Z0-9_.]*)
 | (?P<p>[()\[\]{}<>,=*:|])
 | (?P<cmt>;.*)
''', re.X)

def tokenize(line):
    out = []; pos = 0; n = len(line)
    while pos < n:
        m = TOK.match(line, pos)
        if not m: raise SyntaxError('cannot tokenize %r at %d' % (line, pos))
        pos = m.end(); k = m.lastgroup
        if k in ('ws',): continue
        if k == 'cmt': break
        out.append((k, m.group(k)))
    return out

def unq(s):
    """@"foo" -> @foo ; decode \\xx escapes in quoted ids"""
    if len(s) > 1 and s[1] == '"':
        body = s[2:-1]
        body = re.sub(r'\\([0-9A-Fa-f]{2})', lambda m: chr(int(m.group(1), 16)), body)
        return s[0] + body
    return s

def cstr_bytes(tok):
    body = tok[2:-1]; out = bytearray(); i = 0
    while i < len(body):
        c = body[i]
        if c == '\\':
            if body[i+1] == '\\': out.append(92); i += 2
            else: out.append(int(body[i+1:i+3], 16)); i += 3
        else: out.append(ord(c)); i += 1
    return bytes(out)

PARAM_ATTRS = {'noundef','nonnull','signext','zeroext','inreg','noalias','nocapture','readonly','writeonly',
  'readnone','returned','nest','immarg','swiftself','swifterror','nofree','noundef','inalloca','swiftasync'}
PARAM_ATTRS_T = {'byval','sret','byref','preallocated','elementtype','inalloca'}
PARAM_ATTRS_N = {'dereferenceable','dereferenceable_or_null','align'}
FN_ATTR_WORDS = {'nounwind','noreturn','readnone','readonly','writeonly','cold','noinline','alwaysinline','inlinehint',
  'nobuiltin','builtin','willreturn','nofree','nosync','mustprogress','norecurse','argmemonly','inaccessiblememonly',
  'inaccessiblemem_or_argmemonly','uwtable','optsize','minsize','speculatable','nocallback','noduplicate','returns_twice',
  'ssp','sspstrong','sspreq','nonlazybind','naked','optnone','convergent','nomerge','allocsize','tail','musttail','notail',
  'hot','nocf_check','shadowcallstack','strictfp','safestack','sanitize_address','sanitize_thread','sanitize_memory','null_pointer_is_valid'}
LINKAGE = {'private','internal','available_externally','linkonce','weak','common','appending','extern_weak',
  'linkonce_odr','weak_odr','external','dso_local','dso_preemptable','default','hidden','protected','dllimport','dllexport',
  'thread_local','unnamed_addr','local_unnamed_addr','externally_initialized','fastcc','ccc','coldcc'}

class Val:
    """k: int,fp,null,undef,zero,local,global,cstr,array,struct,cexpr,md"""
    __slots__ = ('k', 'ty', 'v', 'ops', 'op', 'extra')
    def __init__(s, k, ty, v=None, ops=None, op=None, extra=None):
        s.k = k; s.ty = ty; s.v = v; s.ops = ops; s.op = op; s.extra = extra
    def __repr__(s): return 'Val(%s,%r,%r,%r)' % (s.k, s.ty, s.v, s.op)

class Instr:
    __slots__ = ('op', 'res', 'ty', 'ops', 'x', 'line')
    def __init__(s, op, res=None, ty=None, ops=None, **x):
        s.op = op; s.res = res; s.ty = ty; s.ops = ops or []; s.x = x; s.line = None
    def __repr__(s): return 'Instr(%s %s %r %r)' % (s.res, s.op, s.ty, s.x)

class Block:
    def __init__(s, name): s.name = name; s.ins = []
class Function:
    def __init__(s, name, ret, params, vararg):
        s.name = name; s.ret = ret; s.params = params; s.vararg = vararg; s.blocks = []; s.defined = False
        s.attrs = set(); s.pattrs = []; s.nlines = 0
class Global:
    def __init__(s, name, ty, init, const, external, align):
        s.name = name; s.ty = ty; s.init = init; s.const = const; s.external = external; s.align = align

class Module:
    def __init__(s): s.types = {}; s.globals = {}; s.funcs = {}; s.order = []; s.attrgroups = {}; s.aliases = {}

class P:
    """token-stream parser over one logical line"""
    def __init__(s, toks, mod, line=''): s.t = toks; s.i = 0; s.mod = mod; s.line = line
    def peek(s, o=0): return s.t[s.i+o] if s.i+o < len(s.t) else (None, None)
    def next(s): tk = s.t[s.i]; s.i += 1; return tk
    def at(s, v): return s.peek()[1] == v
    def eat(s, v):
        if s.peek()[1] == v: s.i += 1; return True
        return False
    def expect(s, v):
        if not s.eat(v): raise SyntaxError('expected %r at %r in: %s' % (v, s.t[s.i:s.i+4], s.line))
    def done(s): return s.i >= len(s.t)

    # ---- types
    def type(s):
        k, v = s.next()
        if v == 'void': t = VOID
        elif k == 'word' and re.fullmatch(r'i[0-9]+', v): t = INT(int(v[1:]))
        elif v in ('float', 'double', 'x86_fp80', 'half', 'fp128'): t = Ty(v)
        elif v == 'ptr': t = PTR(I8)
        elif v in ('label', 'metadata', 'token', 'opaque'): t = Ty(v)
        elif k in ('id', 'qid') and v[0] == '%': t = Ty('named', name=unq(v)[1:])
        elif v == '[':
            n = int(s.next()[1]); s.expect('x'); e = s.type(); s.expect(']'); t = Ty('array', n=n, elem=e)
        elif v == '{': t = s._struct(False)
        elif v == '<':
            if s.at('{'):
                s.next(); t = s._struct(True); s.expect('>')
            else:
                n = int(s.next()[1]); s.expect('x'); e = s.type(); s.expect('>'); t = Ty('vector', n=n, elem=e)
        else: raise SyntaxError('bad type token %r in: %s' % (v, s.line))
        while True:
            if s.at('*'): s.next(); t = PTR(t)
            elif s.at('addrspace'):
                s.next(); s.expect('('); s.next(); s.expect(')')
            elif s.at('('):
                s.next(); ps = []; va = False
                while not s.at(')'):
                    if s.at('...'): s.next(); va = True
                    else: ps.append(s.type())
                    s.eat(',')
                s.expect(')'); t = Ty('func', ret=t, params=ps, vararg=va)
            else: break
        return t
    def _struct(s, packed):
        fs = []
        while not s.at('}'):
            fs.append(s.type()); s.eat(',')
        s.expect('}')
        return Ty('struct', fields=fs, packed=packed)

    def skip_pattrs(s):
        """skip parameter attributes; return dict of interesting ones"""
        a = {}
        while True:
            k, v = s.peek()
            if v in PARAM_ATTRS: s.next(); a[v] = True
            elif v in PARAM_ATTRS_T:
                s.next()
                if s.eat('('): a[v] = s.type(); s.expect(')')
            elif v in PARAM_ATTRS_N:
                s.next()
                if s.eat('('): a[v] = int(s.next()[1]); s.expect(')')
                else: a[v] = int(s.next()[1])
            else: return a

    # ---- values
    def value(s, ty):
        k, v = s.next()
        if k == 'int': return Val('int', ty, int(v))
        if v == 'true': return Val('int', ty, 1)
        if v == 'false': return Val('int', ty, 0)
        if v == 'null': return Val('null', ty)
        if v in ('undef', 'poison'): return Val('undef', ty)
        if v == 'zeroinitializer': return Val('zero', ty)
        if v == 'none': return Val('zero', ty)
        if k in ('num', 'hexf'): return Val('fp', ty, v)
        if k in ('id', 'qid'):
            n = unq(v)
            return Val('local' if n[0] == '%' else 'global', ty, n[1:])
        if k == 'cstr': return Val('cstr', ty, cstr_bytes(v))
        if v == '[':
            ops = []
            while not s.at(']'):
                t = s.type(); ops.append(s.value(t)); s.eat(',')
            s.expect(']'); return Val('array', ty, ops=ops)
        if v == '{':
            ops = []
            while not s.at('}'):
                t = s.type(); ops.append(s.value(t)); s.eat(',')
            s.expect('}'); return Val('struct', ty, ops=ops)
        if v == '<':
            if s.eat('{'):
                ops = []
                while not s.at('}'):
                    t = s.type(); ops.append(s.value(t)); s.eat(',')
                s.expect('}'); s.expect('>'); return Val('struct', ty, ops=ops)
            ops = []
            while not s.at('>'):
                t = s.type(); ops.append(s.value(t)); s.eat(',')
            s.expect('>'); return Val('array', ty, ops=ops)
        if k == 'md' or v == 'metadata': return Val('md', ty)
        # constant expressions
        if v in ('getelementptr',):
            inb = s.eat('inbounds'); s.expect('(')
            bt = s.type(); s.expect(',')
            ops = []
            while not s.at(')'):
                s.eat('inrange'); t = s.type(); ops.append(s.value(t)); s.eat(',')
            s.expect(')')
            return Val('cexpr', ty, op='gep', ops=ops, extra=bt)
        if v in ('bitcast', 'ptrtoint', 'inttoptr', 'trunc', 'zext', 'sext', 'addrspacecast', 'fptosi', 'sitofp', 'uitofp', 'fptoui', 'fpext', 'fptrunc'):
            s.expect('('); t = s.type(); o = s.value(t); s.expect('to'); t2 = s.type(); s.expect(')')
            return Val('cexpr', t2, op=v, ops=[o])
        if v in ('add', 'sub', 'mul', 'and', 'or', 'xor', 'shl', 'lshr', 'ashr', 'udiv', 'sdiv', 'urem', 'srem'):
            while s.peek()[1] in ('nsw', 'nuw', 'exact'): s.next()
            s.expect('('); t = s.type(); a = s.value(t); s.expect(','); t2 = s.type(); b = s.value(t2); s.expect(')')
            return Val('cexpr', t, op=v, ops=[a, b])
        if v in ('icmp', 'fcmp'):
            pred = s.next()[1]
            s.expect('('); t = s.type(); a = s.value(t); s.expect(','); t2 = s.type(); b = s.value(t2); s.expect(')')
            return Val('cexpr', I1, op=v, ops=[a, b], extra=pred)
        if v == 'select':
            s.expect('('); ops = []
            for _ in range(3):
                t = s.type(); ops.append(s.value(t)); s.eat(',')
            s.expect(')')
            return Val('cexpr', ops[1].ty, op='select', ops=ops)
        if v == 'blockaddress' or v == 'dso_local_equivalent':
            raise SyntaxError('unsupported constant %s' % v)
        raise SyntaxError('bad value token %r (%s) in: %s' % (v, k, s.line))

    def tyval(s):
        t = s.type(); s.skip_pattrs(); return s.value(t)

def parse_module(text):
    mod = Module()
    lines = text.split('\n')
    # join continuation lines
    logical = []
    infn = False; depth = 0
    for ln in lines:
        st = ln.strip()
        if not st or st.startswith(';'): continue
        if infn and logical and (st.startswith('to label') or st.startswith('catch ') or st.startswith('filter ')
                                 or st == 'cleanup' or depth > 0 or st.startswith(']')):
            logical[-1] = logical[-1] + ' ' + st
        else:
            logical.append(ln)
        if st.startswith('define '): infn = True
        if st == '}': infn = False
        if infn:
            # track unclosed '[' of switch (only switch lines end with '[')
            if re.match(r'\s*switch ', ln) and st.endswith('['): depth = 1
            elif depth and st.startswith(']'): depth = 0
    cur = None; blk = None
    for ln in logical:
        st = ln.strip()
        if cur is None:
            if st.startswith('source_filename') or st.startswith('target ') or st.startswith('attributes ') \
               or st.startswith('!') or st.startswith('$') or st.startswith('module asm'):
                if st.startswith('attributes '):
                    m = re.match(r'attributes (#\d+) = \{(.*)\}', st)
                    mod.attrgroups[m.group(1)] = set(re.findall(r'(?<!")\b[a-z_]+\b(?!")', re.sub(r'"[^"]*"(="[^"]*")?', '', m.group(2))))
                continue
            toks = tokenize(ln)
            if not toks: continue
            p = P(toks, mod, ln)
            k, v = p.peek()
            if v in ('define', 'declare'):
                f = parse_fn_header(p, mod, v == 'define')
                if v == 'define':
                    cur = f; blk = None
                continue
            if k in ('id', 'qid') and v[0] == '%' and p.peek(1)[1] == '=' and p.peek(2)[1] == 'type':
                p.next(); p.next(); p.next()
                if p.at('opaque'): mod.types[unq(v)[1:]] = Ty('opaque')
                else: mod.types[unq(v)[1:]] = p.type()
                continue
            if k in ('id', 'qid') and v[0] == '@':
                parse_global(p, mod)
                continue
            raise SyntaxError('unknown top-level: ' + ln)
        else:
            if st == '}':
                cur = None; continue
            cur.nlines += 1
            m = re.match(r'^([-a-zA-Z$._0-9]+|"(?:[^"\\]|\\.)*"):', ln)
            if m:
                nm = m.group(1)
                if nm[0] == '"': nm = unq('%' + nm)[1:]
                blk = Block(nm); cur.blocks.append(blk); continue
            if blk is None:
                # implicit entry block: its name is the next unnamed number = number of params
                nm = str(len(cur.params)) if all(re.fullmatch(r'\d+', pn or '0') for pn in cur.pnames) else None
                # entry label number = count of unnamed params
                cnt = sum(1 for pn in cur.pnames if re.fullmatch(r'\d+', pn))
                blk = Block(str(cnt)); cur.blocks.append(blk)
            toks = tokenize(ln)
            ins = parse_instr(P(toks, mod, ln), mod)
            ins.line = st
            blk.ins.append(ins)
    return mod

def parse_fn_header(p, mod, define):
    p.next()
    while p.peek()[1] in LINKAGE or p.peek()[1] in FN_ATTR_WORDS: p.next()
    p.skip_pattrs()
    ret = p.type()
    k, v = p.next(); name = unq(v)[1:]
    p.expect('(')
    params = []; pnames = []; pattrs = []; va = False; idx = 0
    while not p.at(')'):
        if p.at('...'): p.next(); va = True
        else:
            t = p.type(); a = p.skip_pattrs()
            if p.peek()[0] in ('id', 'qid') and p.peek()[1][0] == '%':
                pn = unq(p.next()[1])[1:]
            else: pn = None
            params.append(t); pnames.append(pn); pattrs.append(a)
        p.eat(',')
    p.expect(')')
    # unnamed params in definitions are numbered %0.. in order
    f = Function(name, ret, params, va)
    f.pattrs = pattrs
    # remaining: attrs
    rest = [v for k, v in p.t[p.i:]]
    f.attrs = set(rest)
    for r in rest:
        if r in mod.attrgroups: f.attrs |= mod.attrgroups[r]
    if define:
        # number unnamed
        c = 0
        for i, pn in enumerate(pnames):
            if pn is None: pnames[i] = str(c); c += 1
            elif re.fullmatch(r'\d+', pn): c = int(pn) + 1
        f.defined = True
    f.pnames = pnames
    if name in mod.funcs and mod.funcs[name].defined and not define: return mod.funcs[name]
    mod.funcs[name] = f
    if define: mod.order.append(name)
    return f

def parse_global(p, mod):
    name = unq(p.next()[1])[1:]; p.expect('=')
    external = False; const = False
    while True:
        k, v = p.peek()
        if v in ('external', 'extern_weak'): external = True; p.next()
        elif v in LINKAGE: p.next()
        elif v == 'thread_local':
            p.next()
            if p.eat('('): p.next(); p.expect(')')
        elif v == 'addrspace': p.next(); p.expect('('); p.next(); p.expect(')')
        elif v == 'global': p.next(); break
        elif v == 'constant': p.next(); const = True; break
        elif v in ('alias', 'ifunc'):
            p.next()
            while p.peek()[1] in LINKAGE: p.next()
            t = p.type(); p.expect(',')
            if p.peek()[1] in ('bitcast', 'getelementptr', 'addrspacecast', 'inttoptr'): tv = p.value(PTR(t))
            else: tv = p.tyval()
            x = tv
            while x.k == 'cexpr': x = x.ops[0]
            mod.aliases[name] = x.v
            return
        else: raise SyntaxError('global: unexpected %r in %s' % (v, p.line))
    ty = p.type(); init = None
    if not external and not p.done() and not p.at(','):
        init = p.value(ty)
    align = None
    while not p.done():
        k, v = p.next()
        if v == 'align': align = int(p.next()[1])
    mod.globals[name] = Global(name, ty, init, const, external or init is None, align)

BINOPS = {'add', 'sub', 'mul', 'udiv', 'sdiv', 'urem', 'srem', 'shl', 'lshr', 'ashr', 'and', 'or', 'xor',
          'fadd', 'fsub', 'fmul', 'fdiv', 'frem'}
CASTS = {'trunc', 'zext', 'sext', 'fptrunc', 'fpext', 'fptoui', 'fptosi', 'uitofp', 'sitofp', 'ptrtoint', 'inttoptr', 'bitcast', 'addrspacecast'}
FMF = {'nnan', 'ninf', 'nsz', 'arcp', 'contract', 'afn', 'reassoc', 'fast'}

def parse_call_like(p, mod, res, op):
    while p.peek()[1] in LINKAGE or p.peek()[1] in FMF or p.peek()[1] in ('tail', 'musttail', 'notail'): p.next()
    rattrs = p.skip_pattrs()
    ty = p.type()   # return type or full function type
    callee = p.value(PTR(ty))
    p.expect('(')
    args = []; aattrs = []
    while not p.at(')'):
        t = p.type(); a = p.skip_pattrs()
        args.append(p.value(t)); aattrs.append(a); p.eat(',')
    p.expect(')')
    attrs = set()
    while not p.done() and p.peek()[1] not in ('to', '[') and p.peek()[0] != 'md':
        k, v = p.next()
        attrs.add(v)
        if v in mod.attrgroups: attrs |= mod.attrgroups[v]
        if v == ',': break
    if p.at('['):   # operand bundles
        while not p.at(']'): p.next()
        p.next()
    rt = ty.ret if ty.k == 'func' else ty
    ins = Instr(op, res, rt, args, callee=callee, fty=ty, attrs=attrs, aattrs=aattrs)
    if op == 'invoke':
        p.expect('to'); p.expect('label'); ins.x['normal'] = unq(p.next()[1])[1:]
        p.expect('unwind'); p.expect('label'); ins.x['unwind'] = unq(p.next()[1])[1:]
    return ins

def parse_instr(p, mod):
    res = None
    if p.peek()[0] in ('id', 'qid') and p.peek(1)[1] == '=':
        res = unq(p.next()[1])[1:]; p.next()
    k, op = p.next()
    if op in BINOPS:
        flags = set()
        while p.peek()[1] in ('nsw', 'nuw', 'exact') or p.peek()[1] in FMF: flags.add(p.next()[1])
        t = p.type(); a = p.value(t); p.expect(','); b = p.value(t)
        return Instr(op, res, t, [a, b], flags=flags)
    if op == 'fneg':
        while p.peek()[1] in FMF: p.next()
        t = p.type(); a = p.value(t); return Instr(op, res, t, [a])
    if op in CASTS:
        t = p.type(); a = p.value(t); p.expect('to'); t2 = p.type()
        return Instr(op, res, t2, [a])
    if op in ('icmp', 'fcmp'):
        while p.peek()[1] in FMF: p.next()
        pred = p.next()[1]; t = p.type(); a = p.value(t); p.expect(','); b = p.value(t)
        return Instr(op, res, I1, [a, b], pred=pred)
    if op == 'select':
        while p.peek()[1] in FMF: p.next()
        c = p.tyval(); p.expect(','); a = p.tyval(); p.expect(','); b = p.tyval()
        return Instr(op, res, a.ty, [c, a, b])
    if op == 'phi':
        while p.peek()[1] in FMF: p.next()
        t = p.type(); inc = []
        while p.eat('['):
            v = p.value(t); p.expect(','); lb = unq(p.next()[1])[1:]; p.expect(']'); inc.append((v, lb)); p.eat(',')
        return Instr(op, res, t, [], inc=inc)
    if op == 'br':
        if p.eat('label'): return Instr(op, None, None, [], dest=unq(p.next()[1])[1:])
        c = p.tyval(); p.expect(','); p.expect('label'); t = unq(p.next()[1])[1:]; p.expect(','); p.expect('label'); f = unq(p.next()[1])[1:]
        return Instr('condbr', None, None, [c], t=t, f=f)
    if op == 'switch':
        c = p.tyval(); p.expect(','); p.expect('label'); d = unq(p.next()[1])[1:]; p.expect('[')
        cases = []
        while not p.at(']'):
            v = p.tyval(); p.expect(','); p.expect('label'); cases.append((v, unq(p.next()[1])[1:]))
        return Instr(op, None, None, [c], default=d, cases=cases)
    if op == 'ret':
        if p.at('void'): return Instr(op, None, VOID, [])
        v = p.tyval(); return Instr(op, None, v.ty, [v])
    if op == 'unreachable': return Instr(op)
    if op == 'resume':
        v = p.tyval(); return Instr(op, None, None, [v])
    if op == 'alloca':
        p.eat('inalloca'); t = p.type(); n = None; al = None
        while p.eat(','):
            if p.eat('align'): al = int(p.next()[1])
            elif p.at('addrspace'): p.next(); p.expect('('); p.next(); p.expect(')')
            else: n = p.tyval()
        return Instr(op, res, PTR(t), [n] if n else [], aty=t, align=al)
    if op == 'load':
        atomic = p.eat('atomic'); vol = p.eat('volatile')
        t = p.type(); p.expect(','); a = p.tyval()
        return Instr(op, res, t, [a], atomic=atomic, volatile=vol)
    if op == 'store':
        atomic = p.eat('atomic'); vol = p.eat('volatile')
        v = p.tyval(); p.expect(','); a = p.tyval()
        return Instr(op, None, None, [v, a], atomic=atomic, volatile=vol)
    if op == 'getelementptr':
        inb = p.eat('inbounds'); bt = p.type(); p.expect(','); ops = [p.tyval()]
        while p.eat(','):
            if p.peek()[0] == 'md': break
            p.eat('inrange'); ops.append(p.tyval())
        return Instr('gep', res, None, ops, bt=bt, inbounds=inb)
    if op in ('extractvalue', 'insertvalue'):
        a = p.tyval(); ops = [a]
        if op == 'insertvalue':
            p.expect(','); ops.append(p.tyval())
        idx = []
        while p.eat(','):
            if p.peek()[0] != 'int': break
            idx.append(int(p.next()[1]))
        return Instr(op, res, None, ops, idx=idx)
    if op in ('call', 'invoke') or op in ('tail', 'musttail', 'notail'):
        if op in ('tail', 'musttail', 'notail'): p.expect('call'); op = 'call'
        return parse_call_like(p, mod, res, op)
    if op == 'landingpad':
        t = p.type(); clauses = []; cleanup = False
        while not p.done():
            k, v = p.next()
            if v == 'cleanup': cleanup = True
            elif v == 'catch': clauses.append(('catch', p.tyval()))
            elif v == 'filter': clauses.append(('filter', p.tyval()))
        return Instr(op, res, t, [], clauses=clauses, cleanup=cleanup)
    if op == 'freeze':
        v = p.tyval(); return Instr(op, res, v.ty, [v])
    if op == 'fence': return Instr(op)
    if op == 'atomicrmw':
        p.eat('volatile'); bop = p.next()[1]; a = p.tyval(); p.expect(','); v = p.tyval()
        return Instr(op, res, v.ty, [a, v], bop=bop)
    if op == 'cmpxchg':
        p.eat('weak'); p.eat('volatile'); a = p.tyval(); p.expect(','); c = p.tyval(); p.expect(','); n = p.tyval()
        return Instr(op, res, Ty('struct', fields=[c.ty, I1]), [a, c, n])
    if op in ('extractelement', 'insertelement', 'shufflevector'):
        raise SyntaxError('vector instruction unsupported: ' + p.line)
    if op == 'va_arg': raise SyntaxError('va_arg unsupported: ' + p.line)
    raise SyntaxError('unknown instruction %r in: %s' % (op, p.line))

# ---------------------------------------------------------------- layout
class Layout:
    def __init__(s, mod): s.mod = mod; s.cache = {}
    def res(s, t):
        while t.k == 'named':
            t = s.mod.types[t.name]
        return t
    def sa(s, t):
        """(alloc size, abi align)"""
        key = t.key()
        if key in s.cache: return s.cache[key]
        r = s._sa(t); s.cache[key] = r; return r
    def _sa(s, t):
        t = s.res(t)
        k = t.k
        if k == 'int':
            by = (t.n + 7) // 8
            al = 1
            while al < by and al < 8: al *= 2
            sz = (by + al - 1) // al * al
            return sz, al
        if k == 'float': return 4, 4
        if k == 'double': return 8, 8
        if k == 'x86_fp80': return 16, 16
        if k == 'fp128': return 16, 16
        if k == 'half': return 2, 2
        if k == 'ptr' or k == 'func': return 8, 8
        if k == 'array':
            es, ea = s.sa(t.elem); return es * t.n, ea
        if k == 'vector':
            es, ea = s.sa(t.elem); n = es * t.n
            al = 1
            while al < n: al *= 2
            return n, min(al, 16) if al <= 16 else al
        if k == 'struct':
            off = 0; al = 1
            for f in t.fields:
                fs, fa = s.sa(f)
                if t.packed: fa = 1
                off = (off + fa - 1) // fa * fa + fs; al = max(al, fa)
            off = (off + al - 1) // al * al
            return off, al
        if k == 'opaque': return 0, 1
        raise ValueError('no layout for %r' % t)
    def size(s, t): return s.sa(t)[0]
    def field_off(s, t, i):
        t = s.res(t); off = 0
        for j, f in enumerate(t.fields):
            fs, fa = s.sa(f)
            if t.packed: fa = 1
            off = (off + fa - 1) // fa * fa
            if j == i: return off
            off += fs
        raise IndexError
