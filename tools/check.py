#!/usr/bin/env python3
"""/verif/check <id> quick|thorough | replay <path>"""
import sys, os, importlib.util
sys.path.insert(0, os.path.dirname(os.path.abspath(__file__)))
import vfeng
def load_spec(prop):
    p = os.path.join(vfeng.VERIF, 'harness', prop, 'spec.py')
    sp = importlib.util.spec_from_file_location('spec_' + prop, p); m = importlib.util.module_from_spec(sp); sp.loader.exec_module(m); return m
def main():
    prop, mode = sys.argv[1], sys.argv[2]
    spec = load_spec(prop)
    if mode == 'replay':
        if hasattr(spec, 'replay'): sys.exit(spec.replay(sys.argv[3]))
        sys.exit(vfeng.replay_file(prop, sys.argv[3], spec))
    tier = mode
    os.environ['VERIF_TIER'] = tier
    if hasattr(spec, 'main'): sys.exit(spec.main(tier))
    c = vfeng.Check(prop, tier, getattr(spec, 'LEVEL', 'model_checking'))
    try:
        hs = spec.harnesses(tier)
        only = os.environ.get('VERIF_ONLY')      # debugging aid: run a subset of the harnesses
        if only:
            import re as _re
            hs = [h for h in hs if _re.search(only, h.label or h.name)]
        c.run_all(spec.units(tier), hs)
        extra = spec.extra(c, tier) if hasattr(spec, 'extra') else None
        rc = c.finish(getattr(spec, 'LEVEL_TEXT', ''), extra, getattr(spec, 'TRUSTED', ()))
    finally:
        c.cleanup()
    sys.exit(rc)
main()
