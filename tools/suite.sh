#!/bin/bash
# suite.sh <source tree> <build dir> [jobs]: configure+build the tree, run every test binary, and compare the passing gtest cases with the
# 439 pinned stable_pass names of /root/.vp/BASELINE.json.  Exit 0 iff every pinned test passes.  Prints the missing ones.
src=$1; bld=$2; j=${3:-8}
cmake -G Ninja -S $src -B $bld -DCMAKE_BUILD_TYPE=RelWithDebInfo >$bld.cfg.log 2>&1 || { echo "SUITE: configure failed"; exit 2; }
cmake --build $bld -j$j >$bld.build.log 2>&1 || { echo "SUITE: build failed"; tail -20 $bld.build.log; exit 2; }
mkdir -p $bld/_res
( cd $bld && ctest -j$j --timeout 900 >$bld/_res/ctest.log 2>&1 )
for t in $bld/bin/*-test; do n=$(basename $t); ( cd $bld/bin && timeout 600 ./$n --gtest_color=no >$bld/_res/$n.log 2>&1 ); done
python3 - $bld <<'P'
import json,sys,re,glob,os
bld=sys.argv[1]
sp=json.load(open('/root/.vp/BASELINE.json'))['stable_pass']
ok=set()
for f in glob.glob(bld+'/_res/*-test.log'):
    for l in open(f,errors='replace'):
        m=re.match(r'\[       OK \] (\S+?)\.(\S+)',l)
        if m: ok.add(m.group(1)+'::'+m.group(2))
ct=open(bld+'/_res/ctest.log',errors='replace').read()
for m in re.finditer(r'Test\s+#\d+:\s+(\S+)\s+\.+\s+Passed',ct): ok.add(m.group(1)+'::'+m.group(1))
missing=[t for t in sp if t not in ok]
print('SUITE: %d/%d pinned tests pass'%(len(sp)-len(missing),len(sp)))
for t in missing[:40]: print('  MISSING',t)
sys.exit(1 if missing else 0)
P
