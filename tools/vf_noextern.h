/* force implicit instantiation of libstdc++ templates (std::string members etc.) into the TU,
 * so that their real code is part of the IR instead of being calls into libstdc++.so */
#ifdef __cplusplus
#include <bits/c++config.h>
#undef _GLIBCXX_EXTERN_TEMPLATE
#define _GLIBCXX_EXTERN_TEMPLATE 0
#endif
