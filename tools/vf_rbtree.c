/* libstdc++'s out-of-line red-black tree primitives (std::set / std::map), as unbalanced binary search tree operations: the
 * containers' lookup/iteration only rely on the search-tree order and on the header links, both of which are maintained exactly
 * as in tree.cc; colouring/rotations (a performance property) are omitted.  Node base layout: {int color; parent; left; right}. */
#include "vf_rt.h"
struct rbn { u32 color; struct rbn *parent, *left, *right; };
char *_ZSt18_Rb_tree_incrementPKSt18_Rb_tree_node_base(char *p) {
  struct rbn *x = (struct rbn *)p;
  if (x->right) { x = x->right; for (int i = 0; i < 8; i++) { if (!x->left) break; x = x->left; } }
  else { struct rbn *y = x->parent; for (int i = 0; i < 8; i++) { if (x != y->right) break; x = y; y = y->parent; } if (x->right != y) x = y; }
  return (char *)x;
}
char *_ZSt18_Rb_tree_incrementPSt18_Rb_tree_node_base(char *p) { return _ZSt18_Rb_tree_incrementPKSt18_Rb_tree_node_base(p); }
char *_ZSt18_Rb_tree_decrementPSt18_Rb_tree_node_base(char *p) {
  struct rbn *x = (struct rbn *)p;
  if (x->color == 0 && x->parent && x->parent->parent == x) return (char *)x->right;      /* header node */
  if (x->left) { struct rbn *y = x->left; for (int i = 0; i < 8; i++) { if (!y->right) break; y = y->right; } return (char *)y; }
  struct rbn *y = x->parent; for (int i = 0; i < 8; i++) { if (x != y->left) break; x = y; y = y->parent; }
  return (char *)y;
}
char *_ZSt18_Rb_tree_decrementPKSt18_Rb_tree_node_base(char *p) { return _ZSt18_Rb_tree_decrementPSt18_Rb_tree_node_base(p); }
void _ZSt29_Rb_tree_insert_and_rebalancebPSt18_Rb_tree_node_baseS0_RS_(u8 insert_left, char *xp, char *pp, char *hp) {
  struct rbn *x = (struct rbn *)xp, *p = (struct rbn *)pp, *h = (struct rbn *)hp;
  x->parent = p; x->left = 0; x->right = 0; x->color = 1;
  if (insert_left) { p->left = x; if (p == h) { h->parent = x; h->right = x; } else if (p == h->left) h->left = x; }
  else { p->right = x; if (p == h->right) h->right = x; }
}
/* std::map<int,double>::_M_erase (recursive subtree deletion; value type trivially destructible): node memory is simply not reclaimed */
void _ZNSt8_Rb_treeIiSt4pairIKidESt10_Select1stIS2_ESt4lessIiESaIS2_EE8_M_eraseEPSt13_Rb_tree_nodeIS2_E(char *self, char *x) { }
