#!/usr/bin/env python3
"""regenerates /verif/MANIFEST.json from the table below"""
import json, os
V = os.path.dirname(os.path.dirname(os.path.abspath(__file__)))
props = [json.loads(l) for l in open(os.path.join(V, 'properties.jsonl'))]
CLAIMED = {
 'C17': dict(cat='model_checking', tech='bounded model checking (CBMC/SAT) of C translated from the clang IR of the real SafeInt templates; full-width symbolic operands',
   text='Every instantiation listed (7 types x add/sub/abs, 8/16-bit mul, 63 ctor pairs, mixed forms) is decided for ALL operand bit patterns by CBMC on the ll2c translation of the real templates; counterexamples are replayed on the g++ build. 32/64-bit multiplication is decided by the integer-encoding engine.',
   note='Trusted: clang -O1 IR is a faithful compilation of the source; ll2c (validated each run against a g++ build on seeded vectors); CBMC+SAT. nsw/nuw flags of the IR are asserted, so signed-overflow UB is visible.', ref='DESIGN.md 3 C17'),
 'C10': dict(cat='model_checking', tech='bounded model checking (CBMC/SAT) of the real StdBackend predicates translated from clang IR; the status code is one symbolic 32-bit int',
   text='All seven StdBackend<Impl> classification predicates and SolveCode() are decided for every 32-bit status code at once (no bound on the code) against the documented ranges; virtual dispatch goes through the real vtable of a harness Impl.',
   note='Object image: only vptr and status_.first are initialised (CBMC pointer checks show nothing else is read). Message composition in ReportSolution2AMPL (objective fragment) follows IsProblemSolvedOrFeasible by inspection; not encoded. Text of the -! table outside.', ref='DESIGN.md 3 C10'),
 'C15': dict(cat='model_checking', tech='bounded model checking (CBMC/SAT) of the real SignalHandler code translated from clang IR, with the signal delivery points as symbolic scheduler choices',
   text='The real constructor, SetHandler, HandleSigInt and destructor of src/solver.cc are executed symbolically; before every store to the shared static members (yield points inserted from the IR) and between driver steps the solver chooses whether one of up to 3 signals (SIGINT/SIGTERM) is delivered. All schedules within that bound are decided at once; counterexample schedules are replayed on the real g++ build through the MP_VERIF_SIGPOINT hooks.',
   note='Bound: <=3 signals, <=2 registrations, no nested delivery inside the handler; delivery only at instruction boundaries preceding an access to shared state (others are equivalent). libc signal/write/_exit/getenv are contract stubs; fmt::format (message text) is a stub. The dangling-but-unread message pointer after destruction is reported as unconfirmed UB (pointer arithmetic on a freed object with size 0).', ref='DESIGN.md 3 C15'),
 'C11': dict(cat='model_checking', tech='bounded model checking (CBMC/SAT) of the real option tokeniser and ParseOptionString translated from clang IR; the option text is a symbolic byte string',
   text='SkipSpaces/SkipNonSpaces/SkipToEnd, OptionHelper<std::string|int|double>::Parse and BasicSolver::ParseOptionString are executed symbolically on every NUL-terminated string up to the stated length (all byte values). A reference tokeniser in the harness advances in lock step with the calls the real code makes (FindOption name, setter entry point, name=?, flag=value, unknown name); unwinding assertions give termination inside the bound.',
   note='Bounds: kernels <=8 bytes (quick) / 12 (thorough); ParseOptionString <=3 bytes echo off (quick) / 6 bytes with echo (thorough). strtol/strtod are contract stubs (numeric value itself outside); FindOption/Print/ReportError and the virtual option calls are checking stubs, so synonym/wildcard lookup is outside this harness. ParseOptionString counterexamples are replayed on the translated code (its environment is stubbed); kernel counterexamples on the real ASan build.', ref='DESIGN.md 3 C11'),
 'C14': dict(cat='model_checking', tech='bounded model checking (CBMC/SAT) of the real SOLReader2 code translated from clang IR; header integers / line bytes / (thorough) the whole file content are symbolic',
   text='Quick tier: the suffix-header integer parser Lget (all lines <= 12 bytes) and sufheadcheck (all 2^160 header integer tuples) are decided: cursor inside the line, no signed overflow, accepted headers get a scratch buffer that holds name and table, no exception escapes. Thorough tier: gsufread / bsufread / ReadSOLFile over a symbolic file (deterministic stdio model) with a checking handler.',
   note='Partial: the monolithic gsufread/bsufread/ReadSOLFile functions need > 15 min of symbolic execution even for short files, so they are only in the thorough tier (and may time out there; then they are reported NOT-DECIDED, never as pass). libc strtol/strtod are faithful end-pointer models (value exact for integers <= 15 digits); serror formatting is a stub; allocations <= 4096 bytes.', ref='DESIGN.md 3 C14'),
 'C18': dict(cat='model_checking', tech='bounded model checking (CBMC/SAT) of the real mp::Equal / std::hash<mp::Expr> translated from clang IR, on trees built by the real ExprFactory from symbolic recipes (enumerated shape x solver-decided constants/indices/strings)',
   text='For every root category (20), operator, arity and leaf-kind combination listed in the evidence, two or three trees are built by the real factory with ALL numeric constants (any 64-bit pattern), indices and string bytes symbolic; Equal is compared with structural identity of the recipes, and symmetry, reflexivity, copy-equality, transitivity and Equal=>same-hash are asserted, with CBMC pointer checks for memory safety.',
   note='Shape (root kind/operator/arity/leaf kinds) is enumerated, not symbolic (symbolic node kinds make symbolic execution explode); depth <= 3, arity <= 3, strings <= 2 bytes; quick tier omits PL terms and calls (thorough only). std::_Hash_bytes is replaced by a deterministic byte mixer; +0/-0 expectation left open.', ref='DESIGN.md 3 C18'),
 'C19': dict(cat='model_checking', tech='bounded model checking (CBMC/SAT) of the real name-file line splitter (mp::internal::ReadNames) and, thorough tier, of NameProvider, translated from clang IR; the file content is a symbolic byte buffer',
   text='Quick: ReadNames on every buffer up to 10 bytes (all byte values, data placed at either end of its block so under- and over-reads leave the object): each line reported once, in order, with \\n or \\r\\n stripped; missing final newline => ReadError. Thorough: the whole NameProvider (read, name(i), generic names) on buffers up to 8 bytes.',
   note='Partial: uniqueness and derivation of names created during conversion (VCString::MakeCountedName, PresolveNames) need the whole converter and are NOT claimed. The memory-mapped file is a harness buffer (NameReader::Read is the environment); fmt formatting of the error text is a stub. The NameProvider pipeline needs > 10 min even for 5-byte files and is only in the thorough tier.', ref='DESIGN.md 3 C19'),
 'C02': dict(cat='model_checking', tech='bounded model checking (CBMC/SAT, cadical for the arithmetic harnesses) of the real TextReader token functions translated from clang IR; the input text is a symbolic byte buffer with the NUL sentinel at the end of its block',
   text='Token layer of the NL reader: ReadUInt, ReadInt<short|int|long>, ReadName, ReadString, ReadTillEndOfLine, ReadDouble are decided for every input of up to 12 bytes (quick) / 20 (thorough) and every cursor position: no read past the sentinel, accepted iff the decimal text is representable, value equals the text, cursor position, located ReadError otherwise (differential against a reference parser in the harness).',
   note='Partial: only the text token layer is encoded. The segment layer (NLReader<Reader,Handler> index/count/nesting checks), ReadHeader, BinaryReader, the builder layer and the file-vs-memory path are NOT yet covered; they are listed as outside. strtod is an end-pointer-exact model; ReadError::init (message formatting) is a stub recording line/column.', ref='DESIGN.md 3 C02'),
}
NA = {
 'C09': 'whole-process driver behaviour (exit status, stderr, .sol file on disk) over an instantiated backend: no bounded unit states it and neither CBMC nor the IR engines can carry main->BackendApp::Run with filesystem effects; its encodable ingredients are decided under C02, C10, C11, C12',
 'C13': 'error bound |f(x)-pl(x)| <= tol over real intervals for 17 transcendental functions produced by loops steered by libm values: z3/cvc5/CBMC have no usable semantics for exp/log/sin/pow at tolerance-sized precision; only sampling would be possible, which is a different technique',
}
checks = []
for p in props:
    i = p['id']
    if i in CLAIMED:
        c = CLAIMED[i]
        checks.append({'property_id': i, 'quick_cmd': '/verif/check %s quick' % i, 'thorough_cmd': '/verif/check %s thorough' % i,
          'evidence_file': '/verif/evidence/%s.json' % i, 'replay_cmd_template': '/verif/check %s replay {path}' % i,
          'engine': c.get('engine', 'll2c+cbmc'), 'level_claimed': {'category': c['cat'], 'text': c['text'], 'design_ref': c['ref']},
          'level_note': c['note'], 'technique': c['tech']})
na = [{'property_id': p['id'], 'reason': NA.get(p['id'], 'check not built yet (work in progress; see DESIGN.md section 7 for the order of work)')} for p in props if p['id'] not in CLAIMED]
m = {'version': 1, 'setup_cmd': 'make -C /verif/tools',
 'hooks': {'guard': 'AMPL_MP_VERIF', 'enable': '-DAMPL_MP_VERIF (only replay builds of C15 use it)', 'baseline_off_cmd': '/verif/tools/baseline.sh', 'source_commits': ['1b7d61f', 'e3ae2b8'], 'add_only': True},
 'engines': [{'name': 'll2c+cbmc', 'path': '/verif/tools', 'serves_properties': sorted(CLAIMED), 'kind_free_text': 'clang++-14 IR of harness TUs instantiating the real mp templates -> own IR->C translator (ll2c) -> CBMC 6.11 bounded model checking; counterexamples replayed on the real g++/ASan/UBSan build'}],
 'checks': checks, 'not_applicable': na,
 'notes': 'Solver-based checking of the real code; see DESIGN.md. known_findings.txt lists repaired defects (fix: commits in /repo) and recorded findings.'}
json.dump(m, open(os.path.join(V, 'MANIFEST.json'), 'w'), indent=1)
print('claimed', sorted(CLAIMED), 'n/a', [x['property_id'] for x in na])
