#!/bin/bash
# confirm_demo.sh <seed-id>: re-run only the demonstration of a seed on /repo and on a scratch worktree with the patch (suite result kept from confirm.json)
id=$1; S=/verif/seeded/$id; W=/tmp/confirmd_$id
rm -rf $W; mkdir -p $W /tmp/seed/$id; git -C /repo worktree prune
git -C /repo worktree add --detach $W/wt HEAD >/dev/null 2>&1 || { echo "worktree failed"; exit 2; }
( cd $W/wt && git apply $S/patch.diff ) || { echo "patch does not apply"; git -C /repo worktree remove --force $W/wt; exit 2; }
cp /repo/src/expr-info.cc $W/wt/src/ 2>/dev/null; cp /repo/nl-writer2/include/mp/nl-opcodes.h $W/wt/nl-writer2/include/mp/ 2>/dev/null
sh $S/demo/run.sh /repo >$W/demo_orig.log 2>&1; d0=$?
sh $S/demo/run.sh $W/wt >$W/demo_mut.log 2>&1; d1=$?
python3 - <<P
import json
j=json.load(open('$S/confirm.json'))
j.update({'demo_unchanged_rc':$d0,'demo_mutated_rc':$d1,'demo_mutated_tail': open('$W/demo_mut.log').read()[-400:]})
j['confirmed']=(j.get('suite_rc')==0 and $d0==0 and $d1!=0)
json.dump(j, open('$S/confirm.json','w'), indent=1); print('$id', j['confirmed'], $d0, $d1)
P
cd /; git -C /repo worktree remove --force $W/wt; rm -rf $W
