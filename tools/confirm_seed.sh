#!/bin/bash
# confirm_seed.sh <seed-id> [jobs]: independent confirmation of a seeded change in a scratch worktree of /repo HEAD:
#   patch applies; tree builds; all 439 pinned tests (gtest-case level, tools/suite.sh) pass; the demo exits 0 on /repo and non-zero on the patched tree.
# Writes seeded/<id>/confirm.json.  The worktree and its build are removed afterwards.
id=$1; j=${2:-6}; S=/verif/seeded/$id; W=/tmp/confirm_$id
rm -rf $W; mkdir -p $W; git -C /repo worktree prune
git -C /repo worktree add --detach $W/wt HEAD >/dev/null 2>&1 || { echo "worktree failed"; exit 2; }
( cd $W/wt && git apply $S/patch.diff ) || { echo "patch does not apply"; git -C /repo worktree remove --force $W/wt; exit 2; }
/verif/tools/suite.sh $W/wt $W/build $j > $W/suite.log 2>&1; src=$?
cp $W/build/../wt/src/expr-info.cc /dev/null 2>&1
sh $S/demo/run.sh /repo >$W/demo_orig.log 2>&1; d0=$?
sh $S/demo/run.sh $W/wt >$W/demo_mut.log 2>&1; d1=$?
python3 - <<P
import json
suite=open('$W/suite.log').read()
json.dump({'seed':'$id','suite_rc':$src,'suite_line':[l for l in suite.split('\n') if l.startswith('SUITE')][-1:], 'demo_unchanged_rc':$d0,'demo_mutated_rc':$d1,
 'confirmed': ($src==0 and $d0==0 and $d1!=0),
 'demo_mutated_tail': open('$W/demo_mut.log').read()[-400:]}, open('$S/confirm.json','w'), indent=1)
print(open('$S/confirm.json').read())
P
cd /; git -C /repo worktree remove --force $W/wt; rm -rf $W
