#!/bin/bash
# confirm_seed.sh <seed-id>: scratch worktree of /repo HEAD + patch -> build, pinned suite, demo on both trees; writes seeded/<id>/confirm.json
id=$1; S=/verif/seeded/$id; W=/tmp/confirm_$id
rm -rf $W; git -C /repo worktree prune; git -C /repo worktree add --detach $W/wt HEAD >/dev/null 2>&1 || { echo "worktree failed"; exit 2; }
cd $W/wt && git apply $S/patch.diff || { echo "patch does not apply"; git -C /repo worktree remove --force $W/wt; exit 2; }
cmake -G Ninja -S $W/wt -B $W/build -DCMAKE_BUILD_TYPE=RelWithDebInfo >/dev/null 2>&1
cmake --build $W/build -j12 >$W/build.log 2>&1; brc=$?
EXP="cmake-test assert-test clock-test common-test error-test expr-writer-test option-test problem-builder-test problem-test rstparser-test safeint-test sp-test suffix-test"
ctest --test-dir $W/build -j8 --timeout 900 >$W/ctest.log 2>&1
ok=1; for t in $EXP; do grep -q " $t \.*[ ]*Passed" $W/ctest.log || { ok=0; echo "baseline test $t not passing"; }; done
sh $S/demo/run.sh /repo >$W/demo_orig.log 2>&1; d0=$?
sh $S/demo/run.sh $W/wt >$W/demo_mut.log 2>&1; d1=$?
python3 - <<P
import json
json.dump({'seed':'$id','build_rc':$brc,'baseline_13_pass':bool($ok),'demo_unchanged_rc':$d0,'demo_mutated_rc':$d1,
 'confirmed': ($brc==0 and $ok==1 and $d0==0 and $d1!=0),
 'demo_mutated_tail': open('$W/demo_mut.log').read()[-400:]}, open('$S/confirm.json','w'), indent=1)
print(open('$S/confirm.json').read())
P
cd /; git -C /repo worktree remove --force $W/wt; rm -rf $W
