// Symbolic token-level reader: the `Reader` template argument of the real mp::internal::NLReader<Reader, Handler>.
// Every read is an extern "C" call into the C harness, which serves the token at the reader's cursor (the cursor is
// plain data inside the reader object because NLReader copies readers for READ_BOUNDS_FIRST).  The contract of the
// token functions is the one proved for TextReader/BinaryReader by the C02 token-layer harnesses:
// a read either returns a value of its type (ReadUInt >= 0, ReadInt<T> in T's range) or raises a read error.
#ifndef VF_SYMREADER_H
#define VF_SYMREADER_H
#include "mp/format.h"
extern "C" {
int vf_tk_char(int* pos);
int vf_tk_uint(int* pos, int* err);
long vf_tk_int(int* pos, int width, int* err);
double vf_tk_double(int* pos, int* err);
const char* vf_tk_name(int* pos, unsigned long* len, int* err);
const char* vf_tk_string(int* pos, unsigned long* len, int* err);
void vf_tk_eol(int* pos, int* err);
int vf_tk_iseof(int pos);
void vf_tk_error(int pos, const char* msg);
}
struct VfReadError { int pos; };
struct SymReader {
  int pos = 0;
  char ReadChar() { return (char)vf_tk_char(&pos); }
  int ReadUInt() { int e = 0; int v = vf_tk_uint(&pos, &e); if (e) throw VfReadError{pos}; return v; }
  template <typename Int> Int ReadInt() { int e = 0; long v = vf_tk_int(&pos, (int)sizeof(Int), &e); if (e) throw VfReadError{pos}; return (Int)v; }
  double ReadDouble() { int e = 0; double v = vf_tk_double(&pos, &e); if (e) throw VfReadError{pos}; return v; }
  fmt::StringRef ReadName() { int e = 0; unsigned long n = 0; const char* p = vf_tk_name(&pos, &n, &e); if (e) throw VfReadError{pos}; return fmt::StringRef(p, n); }
  fmt::StringRef ReadString() { int e = 0; unsigned long n = 0; const char* p = vf_tk_string(&pos, &n, &e); if (e) throw VfReadError{pos}; return fmt::StringRef(p, n); }
  void ReadTillEndOfLine() { int e = 0; vf_tk_eol(&pos, &e); if (e) throw VfReadError{pos}; }
  bool IsEOF() const { return vf_tk_iseof(pos) != 0; }
  const char* ptr() const { return 0; }
  template <typename... A> void ReportError(fmt::CStringRef msg, const A&...) { vf_tk_error(pos, msg.c_str()); throw VfReadError{pos}; }
};
#endif
