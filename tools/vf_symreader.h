// Symbolic token-level reader: the `Reader` template argument of the real mp::internal::NLReader<Reader, Handler>.
// Every read is an extern "C" call into the C harness, which serves the token at the reader's cursor (the cursor is
// plain data inside the reader object because NLReader copies readers for READ_BOUNDS_FIRST).  The contract of the
// token functions is the one proved for TextReader/BinaryReader by the C02 token-layer harnesses:
// a read either returns a value of its type (ReadUInt >= 0, ReadInt<T> in T's range) or raises a read error.
#ifndef VF_SYMREADER_H
#define VF_SYMREADER_H
#include "mp/format.h"
extern "C" {
// cursor is passed by value; the advanced cursor and the error flag come back in two globals of the harness
// (no pointers into reader objects: keeps CBMC's value sets small)
extern int vf_tk_pos, vf_tk_err;
int vf_tk_char(int pos);
int vf_tk_uint(int pos);
long vf_tk_int(int pos, int width);
double vf_tk_double(int pos);
const char* vf_tk_name(int pos);          // length in vf_tk_len
const char* vf_tk_string(int pos);
extern unsigned long vf_tk_len;
void vf_tk_eol(int pos);
int vf_tk_iseof(int pos);
void vf_tk_error(int pos, const char* msg);
}
struct VfReadError { int pos; };
struct SymReader {
  int pos = 0;
  void chk() { pos = vf_tk_pos; if (vf_tk_err) throw VfReadError{pos}; }
  char ReadChar() { int c = vf_tk_char(pos); pos = vf_tk_pos; return (char)c; }
  int ReadUInt() { int v = vf_tk_uint(pos); chk(); return v; }
  template <typename Int> Int ReadInt() { long v = vf_tk_int(pos, (int)sizeof(Int)); chk(); return (Int)v; }
  double ReadDouble() { double v = vf_tk_double(pos); chk(); return v; }
  fmt::StringRef ReadName() { const char* p = vf_tk_name(pos); chk(); return fmt::StringRef(p, vf_tk_len); }
  fmt::StringRef ReadString() { const char* p = vf_tk_string(pos); chk(); return fmt::StringRef(p, vf_tk_len); }
  void ReadTillEndOfLine() { vf_tk_eol(pos); chk(); }
  bool IsEOF() const { return vf_tk_iseof(pos) != 0; }
  const char* ptr() const { return 0; }
  template <typename... A> void ReportError(fmt::CStringRef msg, const A&...) { vf_tk_error(pos, msg.c_str()); throw VfReadError{pos}; }
};
#endif
