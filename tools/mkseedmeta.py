#!/usr/bin/env python3
"""mkseedmeta.py: (re)write seeded/<id>/meta.json for seeds that have confirm.json (my own confirmation, tools/confirm_seed.sh)
and check_<tier>.log (tools/seedrun.sh).  Hand-written fields (needs_to_manifest) live in NEEDS below."""
import json, os, re, subprocess, sys
ROOT = os.path.dirname(os.path.dirname(os.path.abspath(__file__)))
NEEDS = {
 'C02_2': 'an r segment with a complementarity bound (type 5) whose variable reference equals num_vars+1',
 'C03_2': 'a binary .nl expression constant whose value is integral and between 2^31 and 2^63',
 'C04_2': 'a presolve/postsolve transfer after an earlier one that left non-zero values in a value node (stale data survives clean-up)',
 'C06_2': 'a reified single-variable equality b <==> (c*x == r) over a CONTINUOUS variable x with bounds exactly [0,1]',
 'C07_2': 'an alldifferent constraint whose arguments round to the same integer but differ before rounding',
 'C08_2': 'an easy-API model with an integer [0,1] column that is nonlinear in the objective',
 'C10_2': 'a solve result code of exactly 450 (limit, infeasible/unbounded range start)',
 'C12_2': 'objno given in the solver options parsed by the after-header callback (the normal driver path) with a value beyond the objectives of the file',
 'C15_2': 'an interrupt delivered between the two stores of a handler re-registration',
 'C20_2': 'a string or key containing the vertical-tab character (0x0b)',
}
def main():
    for sid in sorted(NEEDS):
        d = os.path.join(ROOT, 'seeded', sid)
        if not os.path.isdir(d): continue
        cj = os.path.join(d, 'confirm.json')
        if not os.path.exists(cj): print(sid, 'no confirm.json - skipped'); continue
        conf = json.load(open(cj))
        files = re.findall(r'^\+\+\+ b/(\S+)', open(os.path.join(d, 'patch.diff')).read(), re.M)
        res = {}
        for tier in ('quick', 'thorough'):
            lg = os.path.join(d, 'check_%s.log' % tier)
            if not os.path.exists(lg): continue
            txt = open(lg, errors='replace').read()
            summ = [l for l in txt.split('\n') if re.match(r'C\d\d %s:' % tier, l)]
            res[tier] = {'caught': 'VIOLATION property=' in txt, 'summary': summ[-1:]}
        meta = {'seed': sid, 'property': sid[:3], 'files_changed': files, 'needs_to_manifest': NEEDS[sid],
                'confirmed_by': 'tools/confirm_seed.sh %s (scratch worktree of /repo HEAD: patch applies, cmake build, tools/suite.sh = all 439 pinned gtest cases pass, demo/run.sh exits 0 on /repo and non-zero on the patched tree)' % sid,
                'confirmation': {k: conf.get(k) for k in ('suite_rc', 'suite_line', 'demo_unchanged_rc', 'demo_mutated_rc', 'confirmed')},
                'check_run': 'tools/seedrun.sh %s <tier> (registered check of the property against a scratch worktree with the patch)' % sid,
                'check_result': res,
                'origin': 'sub-agent given only the property text and a scratch worktree; see NOTES.md'}
        json.dump(meta, open(os.path.join(d, 'meta.json'), 'w'), indent=1)
        print(sid, 'confirmed=%s' % conf.get('confirmed'), {t: r['caught'] for t, r in res.items()})
main()
