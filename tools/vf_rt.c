/* Runtime for ll2c-generated C (CBMC and native). */
#include "vf_rt.h"

char *vf_exc_obj; char *vf_exc_type; char *vf_caught[8]; int vf_ncaught; int vf_terminated;
#ifdef __CPROVER__
u64 vf_log[512]; int vf_nlog; u64 vf_sum;
#endif
#ifndef __CPROVER__
int vf_chk_failed; const char *vf_chk_msg;
#include <stdio.h>
#include <stdlib.h>
void vf_die(const char *what, const char *msg) { fflush(stdout); fprintf(stderr, "%s: %s\n", what, msg); abort(); }
void vf_assume_failed(void) { fflush(stdout); fprintf(stderr, "VF_ASSUME failed\n"); exit(77); }
#endif

char *vf_malloc(u64 n) {
  char *p = (char *)malloc(n ? n : 1);
#ifdef __CPROVER__
  __CPROVER_assume(p != 0);
#endif
  return p;
}
void vf_free(char *p) { if (p) free(p); }

/* C++ allocation: operator new(size_t), new[], delete, sized/aligned variants */
char *_Znwm(u64 n) { return vf_malloc(n); }
char *_Znam(u64 n) { return vf_malloc(n); }
void _ZdlPv(char *p) { vf_free(p); }
void _ZdaPv(char *p) { vf_free(p); }
void _ZdlPvm(char *p, u64 n) { vf_free(p); }
void _ZdaPvm(char *p, u64 n) { vf_free(p); }

char *__cxa_allocate_exception(u64 n) {
  char *p = vf_malloc(n + 16);
  *(char **)p = 0;
  return p + 16;
}
void __cxa_free_exception(char *p) { }
void __cxa_throw(char *obj, char *type, char *dtor) {
  VF_EXC_TYPE_OF(obj) = type;
  vf_exc_obj = obj; vf_exc_type = type;
}
char *__cxa_begin_catch(char *obj) {
  if (vf_ncaught < 8) vf_caught[vf_ncaught] = obj;
  vf_ncaught++;
  return obj;
}
char *__cxa_get_exception_ptr(char *obj) { return obj; }
void __cxa_end_catch(void) { if (vf_ncaught > 0) vf_ncaught--; }
void __cxa_rethrow(void) {
  if (vf_ncaught > 0 && vf_ncaught <= 8) {
    char *o = vf_caught[vf_ncaught - 1];
    vf_exc_obj = o; vf_exc_type = VF_EXC_TYPE_OF(o);
  } else { vf_terminated = 1; }
}
/* std::exception base parts */
void _ZNSt9exceptionD2Ev(char *self) { }
void _ZNSt9exceptionD1Ev(char *self) { }
void _ZNSt13runtime_errorD2Ev(char *self) { }
void _ZNSt13runtime_errorD1Ev(char *self) { }
void _ZNSt11logic_errorD2Ev(char *self) { }
/* std::runtime_error / std::logic_error out-of-line members (libstdc++.so): the message is kept as a pointer */
void _ZNSt13runtime_errorC2EPKc(char *self, char *msg) { *(char **)(self + 8) = msg; }
void _ZNSt13runtime_errorC1EPKc(char *self, char *msg) { *(char **)(self + 8) = msg; }
void _ZNSt13runtime_errorC1ERKNSt7__cxx1112basic_stringIcSt11char_traitsIcESaIcEEE(char *self, char *str) { *(char **)(self + 8) = *(char **)str; }
void _ZNSt13runtime_errorC2ERKNSt7__cxx1112basic_stringIcSt11char_traitsIcESaIcEEE(char *self, char *str) { *(char **)(self + 8) = *(char **)str; }
char *_ZNKSt13runtime_error4whatEv(char *self) { return *(char **)(self + 8); }
char *_ZNSt13runtime_erroraSEOS_(char *self, char *other) { *(char **)(self + 8) = *(char **)(other + 8); return self; }
void _ZNSt11logic_errorC2EPKc(char *self, char *msg) { *(char **)(self + 8) = msg; }
void _ZNSt11logic_errorC1EPKc(char *self, char *msg) { *(char **)(self + 8) = msg; }
void __clang_call_terminate(char *e) { vf_terminated = 1; VF_ASSUME(0); }
void _ZSt9terminatev(void) { vf_terminated = 1; VF_ASSUME(0); }
void __cxa_call_unexpected(char *e) { vf_terminated = 1; VF_ASSUME(0); }
#ifndef VF_OWN_YIELD
void vf_yield(int site) { }
#endif
