/* Native driver for harnesses: replay of a CBMC counterexample, or seeded random vectors
 * (translator validation).  Linked either with gen.c (translated IR) or with the real g++ build. */
#include "vf_harness.h"
#include <stdio.h>
#include <stdlib.h>
#include <string.h>
u64 vf_log[VF_LOGN]; int vf_nlog;
jmp_buf vf_jb; int vf_assert_failed;
static u64 feed[VF_LOGN]; static int nfeed = -1, ifeed;
static u64 rng;
static u64 rnd(void) { rng ^= rng << 13; rng ^= rng >> 7; rng ^= rng << 17; return rng; }
static const u64 special[] = {0, 1, 2, 3, 7, 8, 9, 10, 15, 16, 31, 32, 63, 64, 127, 128, 255, 256, 32767, 32768, 65535, 65536,
  0x7fffffffULL, 0x80000000ULL, 0xffffffffULL, 0x100000000ULL, 0x7fffffffffffffffULL, 0x8000000000000000ULL, 0xffffffffffffffffULL,
  0xfffffffffffffffeULL, 0xffffffff80000000ULL, 0xffffffffffff8000ULL, 0xffffffffffffff80ULL,
  0x3ff0000000000000ULL, 0xbff0000000000000ULL, 0x7ff0000000000000ULL, 0xfff0000000000000ULL, 0x7ff8000000000000ULL, 0x4000000000000000ULL,
  0x3fe0000000000000ULL, 0x8000000000000000ULL, 0x4059000000000000ULL, 0x41dfffffffc00000ULL, 0x43e0000000000000ULL };
u64 vf_nd64(void) {
  u64 v;
  if (nfeed >= 0) v = ifeed < nfeed ? feed[ifeed] : 0, ifeed++;
  else {
    u64 r = rnd();
    switch (r % 8) {
      case 0: case 1: v = special[(r >> 8) % (sizeof special / sizeof special[0])]; break;
      case 2: v = (r >> 8) % 16; break;
      case 3: v = (r >> 8) % 300; break;
      case 4: v = (u64)(-(s64)((r >> 8) % 300)); break;
      case 5: v = special[(r >> 8) % (sizeof special / sizeof special[0])] + ((r >> 20) % 5) - 2; break;
      default: v = rnd(); break;
    }
  }
  if (vf_nlog < VF_LOGN) vf_log[vf_nlog] = v;
  vf_nlog++;
  return v;
}
void vf_obs(u64 x) { printf("obs %llu\n", (unsigned long long)x); }
void vf_assert_fail(const char *msg) { vf_assert_failed++; printf("ASSERT-FAILED: %s\n", msg); }
struct vf_entry { const char *name; void (*fn)(void); };
extern struct vf_entry vf_table[];
#ifdef VF_GEN
extern int vf_chk_failed; extern const char *vf_chk_msg; extern char *vf_exc_type; extern int vf_ncaught, vf_terminated;
void vf_reset_gen(void);
#endif
int main(int argc, char **argv) {
  if (argc < 3) { fprintf(stderr, "usage: %s <harness> replay <file> | random <seed> <count>\n", argv[0]); return 2; }
  struct vf_entry *e = vf_table;
  while (e->name && strcmp(e->name, argv[1])) e++;
  if (!e->name) { fprintf(stderr, "no harness %s\n", argv[1]); return 2; }
  int count = 1;
  if (!strcmp(argv[2], "replay")) {
    FILE *f = fopen(argv[3], "r"); if (!f) { perror(argv[3]); return 2; }
    nfeed = 0; unsigned long long x;
    while (nfeed < VF_LOGN && fscanf(f, "%llu", &x) == 1) feed[nfeed++] = x;
    fclose(f);
  } else { rng = strtoull(argv[3], 0, 10) * 0x9e3779b97f4a7c15ULL + 88172645463325252ULL; count = atoi(argv[4]); }
  int done = 0, skipped = 0;
  for (int it = 0; it < count; it++) {
    vf_nlog = 0; ifeed = 0;
#ifdef VF_GEN
    vf_chk_failed = 0; vf_exc_type = 0; vf_ncaught = 0; vf_terminated = 0;
#endif
    printf("case %d\n", it);
    if (setjmp(vf_jb) == 0) { e->fn(); done++; printf("end\n"); }
    else { skipped++; printf("skip\n"); }
#ifdef VF_GEN
    if (vf_chk_failed) printf("CHK-FAILED: %s\n", vf_chk_msg);
#endif
    fflush(stdout);
  }
  fprintf(stderr, "completed=%d skipped=%d assert_failed=%d\n", done, skipped, vf_assert_failed);
  return 0;
}
#ifdef VF_REAL
/* real build: harness helpers that vf_rt.c provides for the translated code */
char *vf_malloc(u64 n) { return (char *)malloc(n ? n : 1); }
void vf_free(char *p) { free(p); }
#endif
