#!/bin/bash
# seedrun.sh <seed-id> [tier] [prop]: run the check of the seed's property against a scratch worktree of /repo HEAD + the seeded patch.
# Evidence/replays go to a scratch directory, never to /verif/evidence. Prints CAUGHT / MISSED.
id=$1; tier=${2:-quick}; prop=${3:-${id%%_*}}; S=/verif/seeded/$id; W=/tmp/seedrun_$id
rm -rf $W; mkdir -p $W; git -C /repo worktree prune
git -C /repo worktree add --detach $W/wt HEAD >/dev/null 2>&1 || { echo "worktree failed"; exit 2; }
( cd $W/wt && git apply $S/patch.diff ) || { echo "patch does not apply"; git -C /repo worktree remove --force $W/wt; exit 2; }
mkdir -p $W/tmp
VERIF_REPO=$W/wt VERIF_EVIDENCE_DIR=$W/ev VERIF_REPLAY_DIR=$W/replays TMPDIR=$W/tmp /verif/check $prop $tier >$W/out.log 2>$W/err.log; rc=$?
grep -E "VIOLATION|NOT-DECIDED|UNDECIDED|harnesses passed" $W/out.log
if grep -q "^VIOLATION property=$prop" $W/out.log && [ $rc -eq 1 ]; then echo "SEED $id $tier: CAUGHT"; else echo "SEED $id $tier: MISSED (rc=$rc)"; fi
mkdir -p /verif/seeded/$id; cp $W/out.log /verif/seeded/$id/check_$tier.log 2>/dev/null
git -C /repo worktree remove --force $W/wt; rm -rf $W
