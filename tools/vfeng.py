"""Engine A driver: /repo sources -> clang IR -> ll2c -> CBMC harnesses (+witness twins),
translator validation, counterexample replay on the real g++ build, evidence."""
import os, sys, re, json, time, subprocess, shutil, tempfile, resource, hashlib, shlex
from concurrent.futures import ThreadPoolExecutor

VERIF = os.path.dirname(os.path.dirname(os.path.abspath(__file__)))
TOOLS = os.path.join(VERIF, 'tools')
REPO = os.environ.get('VERIF_REPO', '/repo')
DEFAULT_DEFS = ['-DNDEBUG', '-DMP_USE_ATOMIC', '-DMP_USE_HASH', '-DMP_USE_UNIQUE_PTR', '-DMP_DATE=20240320',
                '-DMP_SYSINFO="Linux x86_64"', '-DFMT_USE_FILE_DESCRIPTORS']
CLANG_FLAGS = ['-std=c++17', '-O1', '-fno-vectorize', '-fno-slp-vectorize', '-fno-unroll-loops', '-w',
               '-fno-strict-aliasing', '-include', os.path.join(os.path.dirname(os.path.abspath(__file__)), 'vf_noextern.h')]
CBMC_FLAGS = ['--unwinding-assertions', '--pointer-overflow-check', '--undefined-shift-check', '--signed-overflow-check',
              '--drop-unused-functions', '--no-malloc-may-fail', '--max-field-sensitivity-array-size', '300']

def repo_defs():
    """production -D set, read from the baseline build when present"""
    bn = os.path.join(REPO, '_build', 'build.ninja')
    try:
        txt = open(bn, errors='replace').read()
        m = re.search(r'DEFINES = (.*-DMP_DATE.*)', txt)
        if m:
            toks = shlex.split(m.group(1).replace('\\"', '"'))
            d = [t for t in toks if t.startswith('-D') and not t.startswith('-DMP_TEST') and not t.startswith('-DMP_SYSINFO')]
            d.append('-DMP_SYSINFO="Linux x86_64"')
            if '-DNDEBUG' not in d: d.append('-DNDEBUG')
            return d
    except Exception: pass
    return list(DEFAULT_DEFS)

def include_flags():
    return ['-I' + os.path.join(REPO, p) for p in ('include', 'src', 'nl-writer2/include', 'nl-writer2/src', 'thirdparty', 'solvers')]

def run(cmd, timeout=None, mem_gb=None, cwd=None, env=None, stdin=None):
    def lim():
        if mem_gb: resource.setrlimit(resource.RLIMIT_AS, (int(mem_gb * 2**30), int(mem_gb * 2**30)))
        os.setsid()
    t0 = time.time()
    try:
        p = subprocess.Popen(cmd, stdout=subprocess.PIPE, stderr=subprocess.PIPE, cwd=cwd, env=env, preexec_fn=lim,
                             stdin=subprocess.PIPE if stdin is not None else None)
        try:
            out, err = p.communicate(stdin, timeout=timeout)
            rc = p.returncode
        except subprocess.TimeoutExpired:
            try: os.killpg(p.pid, 9)
            except Exception: pass
            out, err = p.communicate(); rc = 'timeout'
    except OSError as e:
        out, err, rc = b'', str(e).encode(), 'oserror'
    return rc, out.decode(errors='replace'), err.decode(errors='replace'), time.time() - t0

class Unit:
    """one harness TU (C++ wrappers instantiating real mp code) + its C harness file"""
    def __init__(s, name, wrap, harness, externs=(), ll2c_args=(), cxxflags=(), extra_c=(), real_link=(), san=True, tv=True, extra_repo_cc=()):
        s.name = name; s.wrap = wrap; s.harness = harness; s.externs = list(externs); s.ll2c_args = list(ll2c_args)
        s.cxxflags = list(cxxflags); s.extra_c = list(extra_c); s.real_link = list(real_link); s.san = san; s.tv = tv
        s.extra_repo_cc = list(extra_repo_cc); s.stub_undefined = False; s.cdefs = []; s.tool_c = []

class Harness:
    def __init__(s, name, unit, unwind=4, unwindset=(), backend='sat', timeout=120, mem_gb=8, defines=(), bounds='', claims='',
                 assumptions=(), witness=True, tv_cases=200, known=(), flags=(), expect_fail_props=(), replayable=True, depth=None):
        s.name = name; s.unit = unit; s.unwind = unwind; s.unwindset = list(unwindset); s.backend = backend; s.timeout = timeout
        s.mem_gb = mem_gb; s.defines = list(defines); s.bounds = bounds; s.claims = claims; s.assumptions = list(assumptions)
        s.witness = witness; s.tv_cases = tv_cases; s.known = list(known); s.flags = list(flags); s.replayable = replayable; s.label = None; s.replay_on = 'real'

def known_findings(prop):
    """returns (known: {key: text}, fixed: [text])"""
    kn = {}; fx = []
    p = os.path.join(VERIF, 'known_findings.txt')
    if os.path.exists(p):
        for ln in open(p):
            ln = ln.strip()
            m = re.match(r'known:\s+property=(\S+)\s+key=(\S+)\s+(.*)', ln)
            if m and m.group(1) == prop: kn[m.group(2)] = m.group(3)
            m = re.match(r'fixed:\s+property=(\S+)\s+(.*)', ln)
            if m and m.group(1) == prop: fx.append(m.group(2))
    return kn, fx

class Check:
    def __init__(s, prop, tier, level='model_checking'):
        s.prop = prop; s.tier = tier; s.level = level
        s.seed = int(os.environ.get('VERIF_SEED', '1'))
        base = os.environ.get('VERIF_SCRATCH') or os.environ.get('TMPDIR') or '/tmp'
        s.dir = tempfile.mkdtemp(prefix='vf.%s.' % prop, dir=base)
        os.environ['VF_TMP'] = s.dir      # real-build harness binaries put their temporary input files here (removed with the scratch directory)
        s.t0 = time.time(); s.units = {}; s.results = []; s.violations = []; s.notes = []; s.undecided = []
        s.known, s.fixed = known_findings(prop)
        s.hdir = os.path.join(VERIF, 'harness', prop)
        s.defs = repo_defs()
        s.solver_time = 0.0; s.tv_total = 0; s.spurious = []; s.unconfirmed_ub = []
        s.keep = bool(os.environ.get('VERIF_KEEP'))
        import threading; s.lock = threading.Lock()
    def log(s, *a):
        print('[%s %6.1fs]' % (s.prop, time.time() - s.t0), *a, file=sys.stderr); sys.stderr.flush()
    def cleanup(s):
        if not s.keep: shutil.rmtree(s.dir, ignore_errors=True)
        else: s.log('scratch kept at', s.dir)

    def repo_src(s, rel):
        """path of a repository source; src/expr-info.cc (and nl-opcodes.h) are build products of src/gen-expr-info.cc: regenerate them
        from the current tree exactly as the CMake rule does, so a stale or missing copy in the source directory is never used"""
        if rel != 'src/expr-info.cc': return os.path.join(REPO, rel)
        with s.lock:
            gd = os.path.join(s.dir, 'gen_src'); out = os.path.join(gd, 'expr-info.cc')
            if os.path.exists(out): return out
            os.makedirs(os.path.join(gd, 'mp'), exist_ok=True)
            rc, o, e, dt = run(['g++', '-std=c++17', '-O0', '-w'] + include_flags() + [os.path.join(REPO, x) for x in ('src/gen-expr-info.cc', 'src/format.cc', 'src/posix.cc')] + ['-o', os.path.join(gd, 'gei')], timeout=300)
            if rc == 0: rc, o, e, dt = run([os.path.join(gd, 'gei'), out, os.path.join(gd, 'mp', 'nl-opcodes.h')], timeout=60)
            if rc != 0:
                s.log('gen-expr-info failed, falling back to the copy in the tree:', e[-300:]); return os.path.join(REPO, rel)
            return out
    def gen_inc(s):
        s.repo_src('src/expr-info.cc')
        return ['-I' + os.path.join(s.dir, 'gen_src')]

    # ---------------- build a unit
    def build_unit(s, u):
        d = os.path.join(s.dir, u.name); os.makedirs(d, exist_ok=True)
        wrap = os.path.join(s.hdir, u.wrap)
        info = {'name': u.name, 'dir': d, 'ok': False}
        s.units[u.name] = info
        if getattr(u, 'pre', None): u.pre(s, d)      # unit-specific generated headers (from the current tree) go to the unit's scratch dir
        cxx = CLANG_FLAGS + s.defs + s.gen_inc() + include_flags() + ['-I' + s.hdir, '-I' + TOOLS, '-I' + d] + u.cxxflags
        lls = []
        for i, src in enumerate([wrap] + [s.repo_src(x) for x in u.extra_repo_cc]):
            ll = os.path.join(d, 'm%d.ll' % i)
            rc, out, err, dt = run(['clang++-14'] + cxx + ['-S', '-emit-llvm', src, '-o', ll], timeout=600)
            if rc != 0:
                info['error'] = 'clang failed on %s: %s' % (src, err[-2000:]); s.log(info['error']); return info
            lls.append(ll)
        ll = os.path.join(d, 'unit.ll')
        if len(lls) > 1:
            rc, out, err, dt = run(['llvm-link-14', '-S'] + lls + ['-o', ll])
            if rc != 0: info['error'] = 'llvm-link failed: ' + err[-2000:]; s.log(info['error']); return info
        else: os.rename(lls[0], ll)
        args = [sys.executable, os.path.join(TOOLS, 'll2c.py'), ll, '-o', os.path.join(d, 'gen.c'), '--report', os.path.join(d, 'rep.json')]
        exts = list(u.externs)
        if 'vf_file.c' in u.tool_c:      # everything tools/vf_file.c models
            exts += ['fopen', 'fclose', 'fread', 'fgets', 'getc', 'ungetc', 'rewind', 'strtol', 'strtod', 'strtod_l', 'newlocale', 'freelocale', '__errno_location', 'strcpy', 'fputc', 'putc', 'fwrite', 'fflush', 'ferror']
        for e in sorted(set(exts)): args += ['--extern', e]
        args += u.ll2c_args
        rc, out, err, dt = run(args, timeout=600)
        if rc != 0: info['error'] = 'll2c failed: ' + err[-3000:]; s.log(info['error']); return info
        info['ll2c_stderr'] = err
        rep = json.load(open(os.path.join(d, 'rep.json')))
        info['report'] = rep
        info['ir_sha'] = hashlib.sha256(open(ll, 'rb').read()).hexdigest()[:16]
        info['untranslated'] = {k: v for k, v in rep['functions'].items() if isinstance(v, str)}
        if getattr(u, 'post', None): u.post(s, info)
        # harness table for native runs
        rc, pre, err, dt = run(['gcc', '-E', '-DVF_NATIVE'] + ['-D' + x for x in u.cdefs] + ['-I' + TOOLS, '-I' + d, '-I' + s.hdir, os.path.join(s.hdir, u.harness)])
        hs = sorted(set(re.findall(r'\bvoid (h_\w+)\(void\)\s*\{', pre)))
        with open(os.path.join(d, 'table.c'), 'w') as f:
            f.write('struct vf_entry { const char *name; void (*fn)(void); };\n')
            for h in hs: f.write('void %s(void);\n' % h)
            f.write('struct vf_entry vf_table[] = {%s {0,0}};\n' % ''.join('{"%s", %s},' % (h, h) for h in hs))
        info['harness_names'] = hs
        info['cxx'] = cxx; info['ok'] = True; info['unit'] = u
        if u.tv:
            s.build_native(info, 'gen')
        # the real g++ build is needed for replay: build it now so that a harness/wrapper mismatch shows on the unchanged tree, not only when a
        # counterexample has to be confirmed
        info['real_build_ok'] = bool(s.build_native(info, 'real'))
        if not info['real_build_ok']: s.undecided.append('unit %s: the real g++ build used for replay does not build' % u.name)
        return info

    def build_native(s, info, which):
        """which: 'gen' (translated C, gcc) or 'real' (g++ build of the wrappers from /repo, sanitizers)"""
        u = info['unit']; d = info['dir']; exe = os.path.join(d, 'native_' + which)
        if os.path.exists(exe): return exe
        if info.get('native_failed_' + which): return None
        info['native_failed_' + which] = True      # reset below on success
        inc = ['-I' + TOOLS, '-I' + d, '-I' + s.hdir]
        hc = os.path.join(s.hdir, u.harness)
        extra = [os.path.join(s.hdir, x) for x in u.extra_c]
        if which == 'gen':
            cmd = ['gcc', '-O1', '-w', '-DVF_NATIVE', '-DVF_GEN', '-fno-strict-aliasing'] + ['-D' + x for x in u.cdefs] + inc + [os.path.join(d, 'gen.c'), os.path.join(TOOLS, 'vf_rt.c'), os.path.join(TOOLS, 'vf_libc.c'),
                   os.path.join(TOOLS, 'vf_native.c'), os.path.join(d, 'table.c'), hc] + extra + [os.path.join(TOOLS, x) for x in u.tool_c] + ['-lm', '-o', exe]
            rc, out, err, dt = run(cmd, timeout=600)
            if rc != 0: s.log('native gen build failed:', err[-1500:]); return None
        else:
            san = ['-fsanitize=address,undefined', '-fno-omit-frame-pointer'] if u.san else []
            objs = []
            for i, src in enumerate([os.path.join(s.hdir, u.wrap)] + [s.repo_src(x) for x in u.extra_repo_cc]):
                o = os.path.join(d, 'real%d.o' % i)
                cmd = ['g++', '-std=c++17', '-O0', '-g', '-w', '-fno-strict-aliasing'] + san + s.defs + s.gen_inc() + include_flags() + ['-I' + s.hdir, '-I' + TOOLS, '-I' + d] + u.cxxflags + list(getattr(u, 'real_cxxflags', [])) + ['-DVF_REAL_BUILD', '-c', src, '-o', o]
                rc, out, err, dt = run(cmd, timeout=900)
                if rc != 0: s.log('real build failed:', err[-1500:]); return None
                objs.append(o)
            cobjs = []
            for i, src in enumerate([os.path.join(TOOLS, 'vf_native.c'), os.path.join(d, 'table.c'), hc] + extra):
                o = os.path.join(d, 'realc%d.o' % i)
                rc, out, err, dt = run(['gcc', '-O1', '-g', '-w', '-DVF_NATIVE', '-DVF_REAL', '-fno-strict-aliasing'] + ['-D' + x for x in u.cdefs] + inc + ['-c', src, '-o', o], timeout=300)
                if rc != 0: s.log('real harness build failed:', err[-1500:]); return None
                cobjs.append(o)
            rc, out, err, dt = run(['g++', '-Wl,--no-demangle'] + san + objs + cobjs + u.real_link + ['-lm', '-o', exe], timeout=300)
            if rc != 0 and getattr(u, 'stub_undefined', False):
                # symbols of the never-called construction path (BasicSolver ctor etc.): define them as traps
                syms = sorted(set(re.findall(r"undefined reference to `([^']+)'", err)))
                with open(os.path.join(d, 'undef_stubs.s'), 'w') as f:
                    f.write('.text\n')
                    for sy in syms: f.write('.globl %s\n.type %s,@function\n%s:\n  ud2\n' % (sy, sy, sy))
                    f.write('.section .note.GNU-stack,"",@progbits\n')
                info['stubbed_undefined'] = syms
                rc, out, err, dt = run(['g++', '-Wl,--no-demangle'] + san + objs + cobjs + [os.path.join(d, 'undef_stubs.s')] + u.real_link + ['-lm', '-o', exe], timeout=300)
            if rc != 0: s.log('real link failed:', err[-1500:]); return None
        info['native_failed_' + which] = False
        return exe

    def translator_validation(s, info, h):
        """run the harness natively on translated C and on the real build with the same seeded vectors"""
        u = info['unit']
        if not u.tv or h.tv_cases <= 0: return {'done': False, 'reason': 'not applicable for this unit (environment stubs differ)'}
        g = s.build_native(info, 'gen'); r = s.build_native(info, 'real')
        if not g or not r: return {'done': False, 'reason': 'native build failed'}
        env = dict(os.environ, ASAN_OPTIONS='detect_leaks=0', UBSAN_OPTIONS='print_stacktrace=0')
        rc1, o1, e1, _ = run([g, h.name, 'random', str(s.seed), str(h.tv_cases)], timeout=120)
        rc2, o2, e2, _ = run([r, h.name, 'random', str(s.seed), str(h.tv_cases)], timeout=300, env=env)
        f = lambda o: [l for l in o.split('\n') if not l.startswith('CHK-FAILED')]
        same = f(o1) == f(o2) and rc1 == 0 and rc2 == 0
        m = re.search(r'completed=(\d+) skipped=(\d+)', e1)
        res = {'done': True, 'agree': same, 'cases': h.tv_cases, 'completed': int(m.group(1)) if m else 0,
               'assert_failed_native': o2.count('ASSERT-FAILED'), 'sanitizer_reports': len(re.findall(r'runtime error|AddressSanitizer', e2))}
        if not same:
            a, b = f(o1), f(o2)
            for i, (x, y) in enumerate(zip(a, b)):
                if x != y: res['first_diff'] = [i, x, y]; break
            res['rc'] = [rc1, rc2]; res['stderr'] = [e1[-300:], e2[-600:]]
        return res

    # ---------------- cbmc
    def cbmc_cmd(s, info, h, witness, extra=()):
        u = info['unit']; d = info['dir']
        cmd = ['cbmc', os.path.join(d, 'gen.c'), os.path.join(TOOLS, 'vf_rt.c'), os.path.join(TOOLS, 'vf_libc.c'), os.path.join(s.hdir, u.harness)]
        cmd += [os.path.join(s.hdir, x) for x in u.extra_c] + [os.path.join(TOOLS, x) for x in u.tool_c]
        cmd += ['-I' + TOOLS, '-I' + d, '-I' + s.hdir, '--function', h.name, '--unwind', str(h.unwind)]
        if h.unwindset: cmd += ['--unwindset', ','.join(h.unwindset)]
        cmd += CBMC_FLAGS + h.flags
        for df in h.defines + u.cdefs: cmd += ['-D' + df]
        for k in h.known:
            if k in s.known: cmd += ['-DKF_' + k]
        if witness: cmd += ['-DWITNESS']
        if h.backend == 'kissat': cmd += ['--external-sat-solver', 'kissat']
        elif h.backend == 'cadical': cmd += ['--sat-solver', 'cadical']
        elif h.backend == 'cvc5int': cmd += ['--cvc5']      # PATH shim tools/shim/cvc5 adds --solve-bv-as-int=sum (see benv)
        return cmd + list(extra)

    @staticmethod
    def benv(h):
        """environment of the cbmc process: the 'cvc5int' back end finds tools/shim/cvc5 (integer encoding of bit-vectors) first on PATH"""
        if h.backend != 'cvc5int': return None
        return dict(os.environ, PATH=os.path.join(TOOLS, 'shim') + os.pathsep + os.environ.get('PATH', ''))

    def parse_cbmc(s, out):
        props = re.findall(r'^\[([^\]]+)\] (.*): (SUCCESS|FAILURE|UNKNOWN)\s*$', out, re.M)
        verdict = 'SUCCESSFUL' if 'VERIFICATION SUCCESSFUL' in out else 'FAILED' if 'VERIFICATION FAILED' in out else 'ERROR'
        return props, verdict

    def run_harness(s, info, h):
        res = {'harness': h.label or h.name, 'function': h.name, 'unit': h.unit, 'bounds': h.bounds, 'claims': h.claims, 'assumptions': h.assumptions,
               'unwind': h.unwind, 'unwindset': h.unwindset, 'backend': h.backend, 'known_applied': [k for k in h.known if k in s.known]}
        from concurrent.futures import ThreadPoolExecutor as _TP
        with _TP(max_workers=2) as ex2:
            fm = ex2.submit(run, s.cbmc_cmd(info, h, False, ['--slice-formula']), h.timeout, h.mem_gb, None, s.benv(h))
            fw = ex2.submit(run, s.cbmc_cmd(info, h, True, ['--slice-formula']), h.timeout, h.mem_gb, None, s.benv(h)) if h.witness else None
            rc, out, err, dt = fm.result()
            wres = fw.result() if fw else None
        res['wall_s'] = round(dt, 2)
        m = re.search(r'(\d+) variables, (\d+) clauses', out);
        if m: res['sat_vars'] = int(m.group(1)); res['sat_clauses'] = int(m.group(2))
        props, verdict = s.parse_cbmc(out)
        res['properties'] = len(props); res['failed'] = [(p, t) for p, t, r in props if r == 'FAILURE']
        if rc == 'timeout': res['status'] = 'timeout'
        elif verdict == 'ERROR': res['status'] = 'error'; res['error'] = (out[-800:] + err[-800:])
        else:
            hard = [f for f in res['failed'] if '.pointer_arithmetic.' not in f[0]]
            if verdict != 'SUCCESSFUL' and not hard and res['failed']:
                # only 'forming an out-of-object pointer' reports: no sanitizer can confirm them (DESIGN 2.6) -> listed, not blocking
                res['unconfirmed_ub'] = res['failed']; res['failed'] = []
                for f in res['unconfirmed_ub']: s.unconfirmed_ub.append((h.name, f[1]))
                verdict = 'SUCCESSFUL'
            res['status'] = 'pass' if verdict == 'SUCCESSFUL' else 'fail'
        if h.witness and res['status'] == 'pass':
            rc2, out2, err2, dt2 = wres
            p2, v2 = s.parse_cbmc(out2)
            wit = [p for p, t, r in p2 if r == 'FAILURE' and 'WITNESS' in t]
            res['witness_reachable'] = bool(wit); res['witness_wall_s'] = round(dt2, 2)
            if not wit: res['status'] = 'vacuous' if rc2 != 'timeout' else 'timeout'
        return res, out

    def get_trace(s, info, h, propname, ptext=''):
        extra = ['--property', propname, '--trace']
        if '.assertion.' in propname:      # VF_ASSERT / VF_CHK: sliced run keeps the inputs via the checksum (see vf_harness.h)
            extra += ['-DVF_TRACE', '--slice-formula']
        rc, out, err, dt = run(s.cbmc_cmd(info, h, False, extra), timeout=h.timeout, mem_gb=h.mem_gb, env=s.benv(h))
        blocks = out.split('\nTrace for ')
        body = blocks[1] if len(blocks) > 1 else out      # CBMC prints the trace once per reporting section: use the first
        feed = [int(m.group(1)) for m in re.finditer(r'^\s*vf_ndv=(\d+)u?l*\b', body, re.M)]
        return feed, out

    def real_for(s, info, h):
        """real-build binary whose harness.c is compiled with this harness instance's -D defines"""
        base = s.build_native(info, 'real')
        defs = list(h.defines) + ['KF_' + k for k in h.known if k in s.known]
        if not base or not defs: return base
        u = info['unit']; d = info['dir']
        tag = hashlib.sha1(' '.join(defs).encode()).hexdigest()[:10]
        exe = os.path.join(d, 'native_real_' + tag)
        with s.lock:
            if os.path.exists(exe): return exe
            inc = ['-I' + TOOLS, '-I' + d, '-I' + s.hdir]
            o = os.path.join(d, 'realh_%s.o' % tag)
            rc, out, err, dt = run(['gcc', '-O1', '-g', '-w', '-DVF_NATIVE', '-DVF_REAL', '-fno-strict-aliasing'] + ['-D' + x for x in u.cdefs + defs] + inc + ['-c', os.path.join(s.hdir, u.harness), '-o', o], timeout=300)
            if rc != 0: return None
            objs = [os.path.join(d, f) for f in sorted(os.listdir(d)) if re.match(r'real\d+\.o$', f) or (re.match(r'realc\d+\.o$', f) and f != 'realc2.o')]
            extra = [os.path.join(d, 'undef_stubs.s')] if os.path.exists(os.path.join(d, 'undef_stubs.s')) else []
            san = ['-fsanitize=address,undefined', '-fno-omit-frame-pointer'] if u.san else []
            rc, out, err, dt = run(['g++', '-Wl,--no-demangle'] + san + objs + [o] + extra + u.real_link + ['-lm', '-o', exe], timeout=300)
            if rc != 0: s.log('real relink failed', err[-500:]); return None
        return exe

    def gen_for(s, info, h):
        """native build of the TRANSLATED code with this harness instance's -D defines"""
        u = info['unit']; d = info['dir']
        defs = list(h.defines) + ['KF_' + k for k in h.known if k in s.known]
        tag = hashlib.sha1(' '.join(defs).encode()).hexdigest()[:10]
        exe = os.path.join(d, 'native_gen_' + tag)
        with s.lock:
            if os.path.exists(exe): return exe
            inc = ['-I' + TOOLS, '-I' + d, '-I' + s.hdir]
            if not os.path.exists(os.path.join(d, 'gen.o')):
                rc, out, err, dt = run(['gcc', '-O1', '-w', '-DVF_NATIVE', '-DVF_GEN', '-fno-strict-aliasing'] + inc + ['-c', os.path.join(d, 'gen.c'), '-o', os.path.join(d, 'gen.o')], timeout=900)
                if rc != 0: s.log('gen.o build failed', err[-500:]); return None
            cmd = ['gcc', '-O1', '-w', '-DVF_NATIVE', '-DVF_GEN', '-fno-strict-aliasing'] + ['-D' + x for x in u.cdefs + defs] + inc + [os.path.join(d, 'gen.o'), os.path.join(TOOLS, 'vf_rt.c'), os.path.join(TOOLS, 'vf_libc.c'),
                   os.path.join(TOOLS, 'vf_native.c'), os.path.join(d, 'table.c'), os.path.join(s.hdir, u.harness)] + [os.path.join(s.hdir, x) for x in u.extra_c] + [os.path.join(TOOLS, x) for x in u.tool_c] + ['-lm', '-o', exe]
            rc, out, err, dt = run(cmd, timeout=600)
            if rc != 0: s.log('native gen build failed:', err[-1500:]); return None
        return exe

    def replay(s, info, h, feed, expect_desc):
        """replay on the REAL build; returns (confirmed, detail)"""
        if getattr(h, 'replay_on', 'real') == 'gen':
            r = s.gen_for(info, h)       # environment of this harness is stubbed: replay on the translated code (stated in the evidence)
        else:
            r = s.real_for(info, h)
        if not r: return None, 'replay build failed'
        rd = os.path.join(os.environ.get('VERIF_REPLAY_DIR') or os.path.join(VERIF, 'replays'), s.prop); os.makedirs(rd, exist_ok=True)
        key = hashlib.sha1((h.name + expect_desc + repr(feed)).encode()).hexdigest()[:10]
        path = os.path.join(rd, '%s_%s.json' % (h.name, key))
        json.dump({'property': s.prop, 'unit': h.unit, 'harness': h.name, 'label': h.label or h.name, 'feed': feed, 'failed_property': expect_desc}, open(path, 'w'), indent=1)
        fpath = os.path.join(info['dir'], 'feed_%s.txt' % key); open(fpath, 'w').write(' '.join(map(str, feed)))
        env = dict(os.environ, ASAN_OPTIONS='detect_leaks=0:halt_on_error=0', UBSAN_OPTIONS='print_stacktrace=1')
        rc, out, err, dt = run([r, h.name, 'replay', fpath], timeout=120, env=env)
        confirmed = ('ASSERT-FAILED' in out) or (getattr(h, 'replay_on', 'real') == 'gen' and 'CHK-FAILED' in out) or bool(re.search(r'runtime error|AddressSanitizer|terminate called', err)) or (isinstance(rc, int) and rc < 0 and rc != -4)
        if rc == -4 and not confirmed: return None, 'replay reached a symbol that is not linked into the real build (undefined-symbol trap): not a confirmation'
        detail = (out[-600:] + '\n' + '\n'.join(l for l in err.split('\n') if re.search(r'runtime error|Sanitizer|terminate|SUMMARY', l))[:1200])
        return (path if confirmed else False), detail

    # ---------------- main loop
    def run_all(s, units, harnesses, jobs=None):
        jobs = jobs or max(2, (os.cpu_count() or 4) - 2)
        with ThreadPoolExecutor(max_workers=jobs) as ex:
            list(ex.map(s.build_unit, units))
        for u in units:
            info = s.units[u.name]
            if not info['ok']:
                s.undecided.append('unit %s could not be built: %s' % (u.name, info.get('error', '')[:300]))
        def one(h):
            info = s.units.get(h.unit)
            if not info or not info['ok']:
                return {'harness': h.label or h.name, 'unit': h.unit, 'status': 'not-built'}
            tv = s.translator_validation(info, h)
            if tv.get('done') and not tv.get('agree'):
                s.log('TRANSLATOR-MISMATCH', h.name, tv)
                return {'harness': h.label or h.name, 'unit': h.unit, 'status': 'translator-mismatch', 'tv': tv}
            res, out = s.run_harness(info, h)
            res['tv'] = tv
            if res['status'] == 'fail':
                res['counterexamples'] = []
                seen_confirm = False
                for pname, ptext in sorted(res['failed'], key=lambda x: (x[0].startswith('_Z') or 'pointer' in x[0], x[0]))[:4]:
                    if seen_confirm and '.assertion.' not in pname: continue   # slow unsliced trace not needed any more
                    feed, tout = s.get_trace(info, h, pname, ptext)
                    if not h.replayable:
                        res['counterexamples'].append({'property': pname, 'text': ptext, 'feed': feed, 'replay': 'not replayable'}); continue
                    path, detail = s.replay(info, h, feed, ptext)
                    ce = {'property': pname, 'text': ptext, 'feed': feed[:40], 'replay': path, 'detail': detail[-500:]}
                    res['counterexamples'].append(ce)
                    if path:
                        seen_confirm = True
                        s.violations.append((h.name, ptext, path))
                    elif path is False:
                        if 'pointer_arithmetic' in pname or 'pointer arithmetic' in ptext: s.unconfirmed_ub.append((h.name, ptext))
                        else: s.spurious.append((h.name, ptext))
                res['status'] = 'violation' if seen_confirm else 'inconclusive'
            s.log('%-34s %-12s %6.1fs props=%s' % (h.label or h.name, res['status'], res.get('wall_s', 0), res.get('properties')))
            return res
        with ThreadPoolExecutor(max_workers=jobs) as ex:
            s.results = list(ex.map(one, harnesses))
        return s.results

    def finish(s, level_text='', extra_cov=None, trusted=()):
        """write evidence, print verdict lines, return exit code"""
        rs = s.results
        passed = [r for r in rs if r['status'] == 'pass']
        bad = [r for r in rs if r['status'] not in ('pass', 'violation')]
        funcs = {}
        for u in s.units.values():
            if u.get('ok'):
                for k, v in u['report']['functions'].items(): funcs[k] = v
        samples = []
        for r in rs[:6]:
            samples.append({'harness': r['harness'], 'status': r['status'], 'bounds': r.get('bounds'), 'claims': r.get('claims'),
                            'cbmc_properties': r.get('properties'), 'wall_s': r.get('wall_s')})
        nprops = sum(r.get('properties') or 0 for r in rs)
        cov = {
            'states': max(1, sum(r.get('sat_vars') or 0 for r in rs)), 'transitions': max(1, sum(r.get('sat_clauses') or 0 for r in rs)),
            'traces_validated_against_impl': sum((r.get('tv') or {}).get('completed', 0) for r in rs),
            'samples': samples,
            'explanation': 'states/transitions = SAT variables/clauses of the bounded verification conditions CBMC discharged (symbolic, not enumerated states); '
                           'traces_validated_against_impl = seeded concrete vectors on which the ll2c-translated C and the real g++ build of the same wrappers agreed.',
            'obligations': nprops, 'discharged': sum((r.get('properties') or 0) for r in passed),
            'harnesses': rs, 'harnesses_total': len(rs), 'harnesses_passed': len(passed),
            'not_decided': [{'harness': r['harness'], 'status': r['status']} for r in bad],
            'functions_encoded': funcs, 'functions_encoded_count': len(funcs),
            'ir_sha': {k: v.get('ir_sha') for k, v in s.units.items()},
            'externals': {k: v['report']['externals'] for k, v in s.units.items() if v.get('ok')},
            'untranslated': {k: v.get('untranslated') for k, v in s.units.items() if v.get('ok') and v.get('untranslated')},
            'solver_wall_s': round(sum(r.get('wall_s') or 0 for r in rs), 1),
            'spurious_models': s.spurious, 'unconfirmed_ub': s.unconfirmed_ub,
            'known_findings_applied': s.known, 'fixed_findings': s.fixed, 'undecided': s.undecided,
            'checker_cmd': 'cbmc ' + ' '.join(CBMC_FLAGS), 'trusted_base': list(trusted) + ['clang++-14 -O1 front end and optimiser', 'll2c translator (validated per run against g++ build)', 'cbmc 6.11 + SAT back end'],
            'decided': not s.undecided and not bad,
        }
        if extra_cov: cov.update(extra_cov)
        ev = {'property_id': s.prop, 'tier': s.tier, 'seed': s.seed, 'level': s.level, 'coverage': cov,
              'assumptions': sorted(set(a for r in rs for a in (r.get('assumptions') or []))) + [level_text] if level_text else [],
              'wall_s': round(time.time() - s.t0, 1), 'violations': len(s.violations)}
        evd = os.environ.get('VERIF_EVIDENCE_DIR') or os.path.join(VERIF, 'evidence')
        os.makedirs(evd, exist_ok=True)
        json.dump(ev, open(os.path.join(evd, s.prop + '.json'), 'w'), indent=1, default=str)
        for k, t in s.known.items(): print('KNOWN-FINDING: property=%s %s %s' % (s.prop, k, t))
        for r in bad: print('NOT-DECIDED: property=%s harness=%s status=%s' % (s.prop, r['harness'], r['status']))
        for u in s.undecided: print('UNDECIDED: property=%s %s' % (s.prop, u))
        seen = set()
        for hn, text, path in s.violations:
            if path in seen: continue
            seen.add(path)
            print('VIOLATION property=%s replay=%s  (%s: %s)' % (s.prop, path, hn, text))
        print('%s %s: %d/%d harnesses passed, %d violations, %.0fs' % (s.prop, s.tier, len(passed), len(rs), len(s.violations), time.time() - s.t0))
        s.cleanup()
        return 1 if s.violations else 0

def replay_file(prop, path, spec):
    """`check <id> replay <path>`: rebuild the real wrappers and run the recorded feed"""
    j = json.load(open(path))
    c = Check(prop, 'quick')
    u = [x for x in spec.units('thorough') if x.name == j['unit']][0]
    info = c.build_unit(u)
    hs = spec.harnesses('thorough')
    h = ([x for x in hs if j.get('label') and (x.label or x.name) == j['label']] or [x for x in hs if x.name == j['harness']])[0]      # instance (its -D defines) by label
    p, detail = c.replay(info, h, j['feed'], j.get('failed_property', ''))
    print(detail)
    print('REPRODUCED' if p else 'NOT REPRODUCED')
    c.cleanup()
    return 1 if p else 0
